"""Shared machinery of the /verif checks.

One run of a check (see DESIGN.md section 2.1):
  1. prep(): regenerate Gen/*.v from /repo, `make` the Coq development (a full
     .vo build), rebuild the Go harness against /repo's working tree;
  2. the property module generates cases, runs them through the real sqlc
     (harness) and evaluates the Gallina predicates on what sqlc produced
     (coqc + vm_compute on a generated cases file);
  3. verdicts -> VIOLATION / KNOWN-FINDING lines, evidence file.
"""
import fcntl
import hashlib
import json
import os
import random
import re
import shutil
import subprocess
import sys
import tempfile
import time
from concurrent.futures import ThreadPoolExecutor

VERIF = os.path.dirname(os.path.dirname(os.path.abspath(__file__)))
REPO = os.environ.get("VERIF_REPO", "/repo")
BUILD = os.path.join(VERIF, "build")
COQDIR = os.path.join(VERIF, "coq")
HARNESS_BIN = os.path.join(BUILD, "verifharness")
GOENV = dict(os.environ, GOFLAGS="-mod=mod", GOPROXY="off", GOSUMDB="off",
             GOTOOLCHAIN="local", CGO_ENABLED="1")
NCPU = os.cpu_count() or 8

TRUSTED_BASE = [
    "Coq 8.16.1 kernel and coqc; vm_compute (bytecode VM) for finite-domain lemmas and case evaluation; no native_compute",
    "no axioms: every Props theorem prints 'Closed under the global context' (checked on every run)",
    "hand-written Gallina model tied to /repo by the correspondence check (harness runs the real code on the same inputs)",
    "Go harness /verif/harness (go/parser based observers), Python generators and orchestration /verif/checks",
    "reference semantics in coq/theories/Spec stand in for PostgreSQL/MySQL (no server in the sandbox)",
]


def log(*a):
    print(*a, file=sys.stderr, flush=True)


class Lock:
    def __init__(self, name):
        os.makedirs(BUILD, exist_ok=True)
        self.path = os.path.join(BUILD, name + ".lock")

    def __enter__(self):
        self.f = open(self.path, "w")
        fcntl.flock(self.f, fcntl.LOCK_EX)
        return self

    def __exit__(self, *a):
        fcntl.flock(self.f, fcntl.LOCK_UN)
        self.f.close()


def sh(cmd, cwd=None, env=None, timeout=3600, check=False):
    p = subprocess.run(cmd, cwd=cwd, env=env, timeout=timeout, shell=isinstance(cmd, str),
                       stdout=subprocess.PIPE, stderr=subprocess.STDOUT, text=True, errors="replace")
    if check and p.returncode != 0:
        raise RuntimeError("command failed: %s\n%s" % (cmd, p.stdout[-4000:]))
    return p.returncode, p.stdout


# ----------------------------------------------------------------------------
# preparation
# ----------------------------------------------------------------------------

class PrepError(Exception):
    def __init__(self, stage, output):
        super().__init__(stage)
        self.stage = stage
        self.output = output


def build_harness():
    hdir = os.path.join(VERIF, "harness")
    shutil.copyfile(os.path.join(REPO, "go.sum"), os.path.join(hdir, "go.sum"))
    gomod = open(os.path.join(hdir, "go.mod")).read()
    want = "replace github.com/kyleconroy/sqlc => %s" % REPO
    gomod2 = re.sub(r"replace github.com/kyleconroy/sqlc => \S+", want, gomod)
    if gomod2 != gomod:
        open(os.path.join(hdir, "go.mod"), "w").write(gomod2)
    rc, out = sh(["go", "build", "-tags", "verif", "-o", HARNESS_BIN, "."], cwd=hdir, env=GOENV, timeout=1200)
    if rc != 0:
        raise PrepError("harness-build", out)


SQLC_BIN = os.path.join(BUILD, "sqlc")


def build_sqlc_binary():
    """the real CLI, built from /repo's working tree (used by C12, C18)"""
    with Lock("prep"):
        rc, out = sh(["go", "build", "-o", SQLC_BIN, "./cmd/sqlc"], cwd=REPO, env=GOENV, timeout=1800)
    if rc != 0:
        raise PrepError("sqlc-build", out)


def run_translator():
    tdir = os.path.join(VERIF, "translator")
    if not os.path.exists(os.path.join(tdir, "main.go")):
        return
    rc, out = sh(["go", "run", ".", REPO, os.path.join(COQDIR, "theories", "Gen")], cwd=tdir, env=GOENV, timeout=600)
    if rc != 0:
        raise PrepError("translator", out)


def make_coq(targets=None):
    mk, proj = os.path.join(COQDIR, "Makefile"), os.path.join(COQDIR, "_CoqProject")
    if not os.path.exists(mk) or os.path.getmtime(mk) < os.path.getmtime(proj):
        sh("coq_makefile -f _CoqProject -o Makefile", cwd=COQDIR, check=True)
    cmd = ["make", "-k", "-j%d" % NCPU]      # -k: a broken proof must not keep the judges from being built
    if targets:
        cmd += targets
    rc, out = sh(cmd, cwd=COQDIR, timeout=3000)
    return rc, out


def prep(prop=None):
    """Returns (ok, info).  When the Coq build fails, ok=False and info has the
    failing file; the caller decides how to report."""
    with Lock("prep"):
        build_harness()
        tfail = None
        try:
            run_translator()
        except PrepError as e:
            # the source left the shape the translator recognises: the regenerated tables are stale, nothing proved over them
            # is shown to hold any more.  Go on with the tables of the last successful run to search for a failing input.
            tfail = e.output
        rc, out = make_coq()
        if tfail is not None:
            return False, {"stage": "translator", "failing": ("translator (Gen/*.v not regenerated)", ""), "output": tfail[-6000:]}
        if rc != 0:
            m = re.findall(r'File "\./(theories/[^"]+)", line (\d+)', out)
            return False, {"stage": "coq-make", "failing": m[-1] if m else None, "output": out[-6000:]}
    return True, {}


def print_assumptions(prop):
    """Re-compiles Props/<prop>.v and parses the Print Assumptions output.
    Returns (obligations, discharged, axioms, raw)."""
    rel = "theories/Props/%s.v" % prop
    with Lock("prep"):
        rc, out = sh(["coqc", "-Q", "theories", "Verif", "-w", "-notation-overridden,-ambiguous-paths,-deprecated-hint-without-locality", rel],
                     cwd=COQDIR, timeout=1800)
    if rc != 0:
        return 0, 0, ["<Props/%s.v does not compile>" % prop], out
    closed = len(re.findall(r"Closed under the global context", out))
    axioms = []
    blocks = re.split(r"\n(?=Axioms:)", out)
    nax = 0
    for b in blocks:
        if b.startswith("Axioms:"):
            nax += 1
            axioms += re.findall(r"^(\S+)\s*:", b[len("Axioms:"):], re.M)
    return closed + nax, closed, sorted(set(axioms)), out


# ----------------------------------------------------------------------------
# harness
# ----------------------------------------------------------------------------

def run_harness(jobs, workers=None, timeout=3000):
    os.makedirs(os.path.join(BUILD, "tmp"), exist_ok=True)
    d = tempfile.mkdtemp(prefix="hj", dir=os.path.join(BUILD, "tmp"))
    try:
        jp, rp = os.path.join(d, "jobs.jsonl"), os.path.join(d, "res.jsonl")
        with open(jp, "w") as f:
            for i, j in enumerate(jobs):
                j = dict(j)
                j["id"] = i
                f.write(json.dumps(j) + "\n")
        p = subprocess.run([HARNESS_BIN, jp, rp, str(workers or NCPU)], stdout=subprocess.PIPE,
                           stderr=subprocess.PIPE, timeout=timeout, text=True, errors="replace")
        if p.returncode != 0:
            raise RuntimeError("harness failed: " + p.stderr[-3000:])
        res = [json.loads(l) for l in open(rp)]
        assert len(res) == len(jobs)
        return res
    finally:
        shutil.rmtree(d, ignore_errors=True)


# ----------------------------------------------------------------------------
# Coq term printing and case evaluation
# ----------------------------------------------------------------------------

def coqstr(s):
    """Coq term of type string for a Python str (taken as UTF-8 bytes) or bytes."""
    b = s.encode("utf-8") if isinstance(s, str) else bytes(s)
    if all((32 <= c < 127) or c == 10 for c in b):
        return '"' + b.decode("ascii").replace('"', '""') + '"'
    return "(string_of_bytes [" + ";".join(str(c) for c in b) + "]%N)"


def coqlist(items):
    return "[" + "; ".join(items) + "]"


def coqbool(b):
    return "true" if b else "false"


def coqopt(x):
    return "None" if x is None else "(Some %s)" % x


def _big_stack():
    import resource
    try:
        resource.setrlimit(resource.RLIMIT_STACK, (resource.RLIM_INFINITY, resource.RLIM_INFINITY))
    except Exception:
        try:
            soft, hard = resource.getrlimit(resource.RLIMIT_STACK)
            resource.setrlimit(resource.RLIMIT_STACK, (hard, hard))
        except Exception:
            pass


def coq_eval(header, exprs, shards=None, timeout=1800, tag="cases"):
    """Each expr is a Coq term of type `list N`; returns the list of evaluated
    lists (vm_compute inside coqc).  Work is split over parallel coqc runs."""
    if not exprs:
        return []
    # bound the size of one coqc run (memory): large batches are evaluated in rounds
    limit = NCPU * int(os.environ.get("VERIF_MAX_PER_SHARD", "600"))
    if shards is None and len(exprs) > limit:
        out = []
        for lo in range(0, len(exprs), limit):
            out += coq_eval(header, exprs[lo:lo + limit], None, timeout, tag)
        return out
    shards = shards or min(NCPU, max(1, len(exprs) // 40))
    os.makedirs(os.path.join(BUILD, "tmp"), exist_ok=True)
    d = tempfile.mkdtemp(prefix=tag, dir=os.path.join(BUILD, "tmp"))
    chunks = [exprs[i::shards] for i in range(shards)]

    def one(k):
        path = os.path.join(d, "Cases%d.v" % k)
        with open(path, "w") as f:
            f.write(header + "\n")
            f.write("Definition verdicts : list (list N) := Eval vm_compute in [\n")
            f.write(";\n".join(chunks[k]))
            f.write("\n].\nPrint verdicts.\n")
        p = subprocess.run(["coqc", "-Q", os.path.join(COQDIR, "theories"), "Verif", "-w", "-all", path],
                           stdout=subprocess.PIPE, stderr=subprocess.STDOUT, timeout=timeout, text=True, cwd=d,
                           preexec_fn=_big_stack)
        if p.returncode != 0:
            raise RuntimeError("coqc failed on %s:\n%s" % (path, p.stdout[-3000:]))
        m = re.search(r"verdicts\s*=\s*(.*?)\n\s*:\s*list", p.stdout, re.S)
        if not m:
            raise RuntimeError("cannot parse coqc output:\n" + p.stdout[-2000:])
        body = m.group(1)
        body = body.strip()
        assert body.startswith("[")
        inner = re.findall(r"\[([^\[\]]*)\]", body[1:])
        out = []
        for s in inner:
            s = s.strip()
            out.append([int(x) for x in re.findall(r"\d+", s)])
        if len(out) != len(chunks[k]):
            raise RuntimeError("verdict count mismatch %d vs %d:\n%s" % (len(out), len(chunks[k]), p.stdout[-2000:]))
        return out

    try:
        with ThreadPoolExecutor(max_workers=NCPU) as ex:
            parts = list(ex.map(one, range(shards)))
        res = [None] * len(exprs)
        for k in range(shards):
            for j, v in enumerate(parts[k]):
                res[k + j * shards] = v
        return res
    finally:
        if not os.environ.get("VERIF_KEEP"):
            shutil.rmtree(d, ignore_errors=True)


# ----------------------------------------------------------------------------
# known findings, reporting, evidence
# ----------------------------------------------------------------------------

def known_findings(prop):
    p = os.path.join(VERIF, "known_findings.json")
    if not os.path.exists(p):
        return {}
    data = json.load(open(p))
    return {f["class"]: f for f in data.get("findings", []) if f["property"] == prop}


class Report:
    def __init__(self, prop, tier, seed):
        self.prop, self.tier, self.seed = prop, tier, seed
        self.t0 = time.time()
        self.violations = []          # (what, replay dict)
        self.known_hits = {}          # class -> count
        self.evaluations = 0
        self.nontrivial = set()
        self.samples = []
        self.dist = {}
        self.known = known_findings(prop)
        self.extra = {}
        self.assumptions = []

    def count(self, key, n=1):
        self.dist[key] = self.dist.get(key, 0) + n

    def case(self, key, nontrivial=True, sample=None):
        self.evaluations += 1
        if nontrivial:
            self.nontrivial.add(hashlib.sha1(repr(key).encode()).hexdigest())
        if sample is not None and len(self.samples) < 6:
            self.samples.append(sample)

    def violation(self, what, replay, klass=None, no_input=False):
        """klass: known-finding class id (string) the failing input falls in, or None."""
        if klass is not None and klass in self.known:
            self.known_hits[klass] = self.known_hits.get(klass, 0) + 1
            return
        self.violations.append((what, replay, no_input))

    def finish(self, level, obligations=0, discharged=0, checker_cmd="", rule="", assumptions=None):
        wall = time.time() - self.t0
        rdir = os.path.join(BUILD, "replays", self.prop)
        os.makedirs(rdir, exist_ok=True)
        for k, n in sorted(self.known_hits.items()):
            print("KNOWN-FINDING: property=%s %s: %s (%d cases this run)" % (self.prop, k, self.known[k]["what"], n))
        seen = set()
        nviol = 0
        for what, replay, no_input in self.violations:
            key = what
            if key in seen:
                continue
            seen.add(key)
            nviol += 1
            if nviol > 5:
                if os.environ.get("VERIF_DEBUG"):
                    log("  [more] " + what)
                continue
            path = os.path.join(rdir, "replay_%s_%d.json" % (self.tier, nviol))
            with open(path, "w") as f:
                json.dump({"property": self.prop, "what": what, "seed": self.seed, "replay": replay}, f, indent=1)
            print("VIOLATION property=%s replay=%s%s" % (self.prop, path, " no-failing-input-found" if no_input else ""))
            log("  " + what)
        cov = {
            "obligations": obligations, "discharged": discharged,
            "checker_cmd": checker_cmd, "trusted_base": TRUSTED_BASE,
            "evaluations": self.evaluations, "distinct_nontrivial": len(self.nontrivial),
            "rule": rule, "samples": self.samples[:6] or ["<none>"],
            "input_distribution": self.dist,
            "known_finding_hits": self.known_hits,
        }
        cov.update(self.extra)
        ev = {
            "property_id": self.prop, "tier": self.tier, "seed": self.seed, "level": level,
            "coverage": cov, "assumptions": assumptions or [], "wall_s": round(wall, 2),
            "violations": nviol,
        }
        os.makedirs(os.path.join(VERIF, "evidence"), exist_ok=True)
        with open(os.path.join(VERIF, "evidence", self.prop + ".json"), "w") as f:
            json.dump(ev, f, indent=1, sort_keys=True)
        log("%s %s: %d evaluations, %d distinct non-trivial, %d violations, known hits %s, %.1fs"
            % (self.prop, self.tier, self.evaluations, len(self.nontrivial), nviol, self.known_hits, wall))
        return 1 if nviol else 0


def proof_gate(rep, prop, prep_ok, prep_info):
    """Obligations (c): the Coq build and the Print Assumptions of Props/<prop>.v.
    Returns (obligations, discharged)."""
    if not prep_ok:
        failing = prep_info.get("failing")
        rep.proof_broken = "coq build failed at %s" % (failing,)
        return 0, 0
    ob, dis, axioms, raw = print_assumptions(prop)
    allowed = set()
    bad = [a for a in axioms if a not in allowed]
    if ob == 0 or bad or dis != ob:
        rep.proof_broken = "Props/%s.v: obligations=%d discharged=%d axioms=%s" % (prop, ob, dis, axioms)
    rep.extra["axioms"] = axioms
    return ob, dis


def checker_cmd(prop):
    return "make -C /verif/coq (full .vo build) && coqc -Q theories Verif theories/Props/%s.v (Print Assumptions)" % prop


def tier_and_seed():
    tier = os.environ.get("VERIF_TIER", "quick")
    seed = int(os.environ.get("VERIF_SEED", "20260930"))
    return tier, seed
