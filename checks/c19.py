"""C19 — Packages are compiled in isolation; concurrent runs do not interfere."""
import itertools
import json
import random
import subprocess
import tempfile
import shutil
from common import *

PROP = "C19"


def pkg_inputs(rng, i):
    """package i: same object names as the other packages, different definitions"""
    eng = rng.choice(["postgresql", "postgresql", "postgresql", "mysql", "mysql"])
    pool = ["name text", "n int NOT NULL", "bio text", "age bigint", "ok boolean"] + (["meta json", "born timestamptz", "ip inet", "mac macaddr"] if eng == "postgresql" else ["meta json"])
    cols = rng.sample(pool, rng.randint(1, 4))
    schema = "CREATE TABLE authors (id int PRIMARY KEY, %s);\n" % ", ".join(cols)
    if eng == "postgresql":
        schema = "CREATE TYPE status AS ENUM (%s);\n" % ", ".join("'%s'" % l for l in rng.sample(["a", "b", "c", "d"], 2)) + schema
        schema += "ALTER TABLE authors ADD COLUMN st status;\n"
        if rng.random() < 0.4:
            schema += "CREATE FUNCTION %sshout(text) RETURNS %s AS $$ SELECT 1 $$ LANGUAGE sql;\n" % (rng.choice(["", "pg_catalog."]), rng.choice(["text", "int", "boolean"]))
    ext_q = ""
    if eng == "postgresql" and rng.random() < 0.4:
        # an extension every package may create; one package may replace or drop one of its functions - for itself only
        schema = 'CREATE EXTENSION IF NOT EXISTS "pgcrypto";\n' + schema
        r_ = rng.random()
        if r_ < 0.35:
            schema += "CREATE OR REPLACE FUNCTION digest(text, text) RETURNS %s AS $$ SELECT 1 $$ LANGUAGE sql;\n" % rng.choice(["text", "int", "boolean"])
        elif r_ < 0.5:
            schema += "DROP FUNCTION digest(text, text);\n"
        elif r_ < 0.6:
            schema += "CREATE FUNCTION gen_salt(text) RETURNS int AS $$ SELECT 1 $$ LANGUAGE sql;\n"
        ext_q = "\n-- name: Digest :many\nSELECT digest('x', 'sha1'), gen_salt('bf') FROM authors;\n"
    if eng == "mysql" and rng.random() < 0.4:
        schema = "USE legacy%d;\n" % rng.randint(1, 2) + schema      # selects a database for THIS file only
    ph = "$1" if eng == "postgresql" else "?"
    q = "-- name: GetAuthor :one\nSELECT * FROM authors WHERE id = %s;\n\n-- name: ListAuthors :many\nSELECT id, %s FROM authors;\n" % (ph, cols[0].split()[0])
    if "shout" in schema or (eng == "postgresql" and rng.random() < 0.3):
        q += "\n-- name: Loud :many\nSELECT shout(%s) FROM authors;\n" % ("name" if any(c.startswith("name") for c in cols) else "'x'")
    if eng == "postgresql" and rng.random() < 0.5:
        q += "\n-- name: Twice :many\nSELECT id FROM authors WHERE id > $2 AND id < $1 AND id <> $1;\n"
    q += ext_q
    lang = "kotlin" if (eng == "postgresql" and rng.random() < 0.3) else "go"
    if lang == "go":
        gen = {"go": {"package": "db", "out": "out/p%d" % i, "emit_interface": rng.random() < 0.3, "emit_json_tags": rng.random() < 0.3}}
        if rng.random() < 0.3:
            gen["go"]["overrides"] = [{"go_type": "example.com/x.ID", "column": "authors.id"}]
        if eng == "postgresql" and rng.random() < 0.3:
            # a type spelled like a standard-library type but imported from elsewhere - in THIS package only
            gen["go"].setdefault("overrides", []).append(rng.choice([
                {"go_type": "github.com/goccy/go-json.RawMessage", "db_type": "json"}, {"go_type": "example.com/clock/time.Time", "db_type": "timestamptz"},
                {"go_type": "example.com/x/net.IP", "db_type": "inet"}, {"go_type": "example.com/x/net.HardwareAddr", "db_type": "macaddr"},
                {"go_type": "example.com/x/json.RawMessage", "db_type": "json", "nullable": True}]))
    else:
        gen = {"kotlin": {"package": "com.example.p%d" % i, "out": "out/p%d" % i}}
    pkg = {"engine": eng, "schema": "p%d/schema.sql" % i, "queries": "p%d/query.sql" % i, "gen": gen}
    files = {"p%d/schema.sql" % i: schema, "p%d/query.sql" % i: q}
    return pkg, files


SHARED_BASE = ("CREATE TYPE status AS ENUM ('a', 'b');\n"
               "CREATE TABLE authors (id int PRIMARY KEY, name text, bio text);\n"
               "CREATE TABLE venues (id int PRIMARY KEY, city text NOT NULL, st status);\n")


def pkg_inputs_shared(rng, i):
    """package i lists the SAME base schema file as the other packages, plus (maybe) a migration file of its own
    that renames / alters / drops what the base file declares: nothing of that may reach the other packages"""
    venues, bio = "venues", "bio"
    mig = []
    for m in rng.sample(["rename-table", "rename-column", "add-column", "drop-column", "drop-not-null", "add-value", "comment", "drop-table", "alter-type"],
                        rng.choice([0, 1, 1, 2, 3])):
        if m == "rename-table" and venues == "venues":
            mig.append("ALTER TABLE venues RENAME TO arenas;"); venues = "arenas"
        elif m == "rename-column" and bio == "bio":
            mig.append("ALTER TABLE authors RENAME COLUMN bio TO about;"); bio = "about"
        elif m == "add-column":
            mig.append("ALTER TABLE authors ADD COLUMN st status;")
        elif m == "drop-column" and bio == "bio":
            mig.append("ALTER TABLE authors DROP COLUMN bio;"); bio = None
        elif m == "drop-not-null" and venues:
            mig.append("ALTER TABLE %s ALTER COLUMN city DROP NOT NULL;" % venues)
        elif m == "add-value":
            mig.append("ALTER TYPE status ADD VALUE 'p%d';" % i)
        elif m == "comment":
            mig.append("COMMENT ON TABLE authors IS 'package %d';" % i)
        elif m == "drop-table" and venues:
            mig.append("DROP TABLE %s;" % venues); venues = None
        elif m == "alter-type":
            mig.append("ALTER TABLE authors ALTER COLUMN name TYPE bigint;")
    q = "-- name: GetAuthor :one\nSELECT * FROM authors WHERE id = $1;\n"
    if bio:
        q += "\n-- name: Bios :many\nSELECT id, %s FROM authors WHERE %s = $1;\n" % (bio, bio)
    if venues:
        q += "\n-- name: Places :many\nSELECT * FROM %s WHERE city = $1;\n" % venues
    schema_list = ["shared/base.sql"] + (["p%d/mig.sql" % i] if mig else [])
    gen = {"go": {"package": "db", "out": "out/p%d" % i, "emit_interface": rng.random() < 0.3}}
    if rng.random() < 0.25:
        gen = {"kotlin": {"package": "com.example.p%d" % i, "out": "out/p%d" % i}}
    pkg = {"engine": "postgresql", "schema": schema_list, "queries": "p%d/query.sql" % i, "gen": gen}
    files = {"shared/base.sql": SHARED_BASE, "p%d/query.sql" % i: q}
    if mig:
        files["p%d/mig.sql" % i] = "\n".join(mig) + "\n"
    return pkg, files


def config(pkgs, glob):
    cfg = {"version": "2", "sql": pkgs}
    if glob:
        cfg["overrides"] = {"go": glob}
    return json.dumps(cfg)


def job(pkgs, files, glob):
    f = dict(files)
    f["sqlc.json"] = config(pkgs, glob)
    return {"op": "generate", "files": f}


def outs_of(res, i):
    if not res.get("ok"):
        return ("ERR", res.get("stderr", "") + str(res.get("panic", "")))
    pre = "out/p%d/" % i
    return {k[len(pre):]: v for k, v in res["out"].items() if k.startswith(pre)}


def run(tier, seed):
    rep = Report(PROP, tier, seed)
    ok, info = prep(PROP)
    ob, dis = proof_gate(rep, PROP, ok, info)
    rng = random.Random(seed)
    n = 400 if tier == "quick" else 4000
    jobs, plan = [], []
    for ci in range(n):
        k = rng.randint(2, 4)
        shared = rng.random() < 0.4
        pk = [(pkg_inputs_shared if shared else pkg_inputs)(rng, i) for i in range(k)]
        rep.count("shared-schema-file" if shared else "own-schema-files")
        files = {}
        for _, f in pk:
            files.update(f)
        glob = {}
        if rng.random() < 0.3:
            glob["rename"] = {"bio": "Biography"}
        if rng.random() < 0.2 and all(p["engine"] == pk[0][0]["engine"] for p, _ in pk):
            glob["overrides"] = [{"go_type": "example.com/y.Name", "column": "authors.name"}]
        engines = set(p["engine"] for p, _ in pk)
        if len(engines) > 1 and not shared and rng.random() < 0.5:
            # a configuration that mixes engines must tag its global overrides with an engine; what a package receives must
            # still not depend on which other packages (and engines) are listed next to it
            glob["overrides"] = rng.sample([{"go_type": "example.com/y.PgText", "db_type": "text", "engine": "postgresql", "nullable": True},
                                            {"go_type": "example.com/y.MyText", "db_type": "text", "engine": "mysql", "nullable": True},
                                            {"go_type": "example.com/y.Name", "column": "authors.name", "engine": rng.choice(["postgresql", "mysql"])},
                                            {"go_type": "example.com/y.Big", "db_type": "bigint", "engine": "mysql"}], rng.randint(1, 3))
            rep.count("mixed-engines-with-tagged-global-overrides")
        pkgs = [p for p, _ in pk]
        orders = [list(range(k))]
        perms = list(itertools.permutations(range(k)))
        rng.shuffle(perms)
        orders += [list(p) for p in perms[:2 if tier == "quick" else 5] if list(p) != list(range(k))]
        entry = {"multi": [], "single": [], "pkgs": pkgs, "files": files, "glob": glob}
        for o in orders:
            entry["multi"].append((o, len(jobs)))
            jobs.append(job([pkgs[i] for i in o], files, glob))
        for i in range(k):
            entry["single"].append(len(jobs))
            jobs.append(job([pkgs[i]], files, glob))
        plan.append(entry)
    res = run_harness(jobs)
    for e in plan:
        k = len(e["pkgs"])
        rep.case(json.dumps(e["pkgs"], sort_keys=True), nontrivial=True,
                 sample={"packages": [(p["engine"], list(p["gen"])) for p in e["pkgs"]], "global": e["glob"]} if len(rep.samples) < 3 else None)
        rep.count("packages=%d" % k)
        singles = [outs_of(res[j], i) for i, j in enumerate(e["single"])]
        for o, j in e["multi"]:
            rep.count("orders")
            if not any(isinstance(x, tuple) for x in singles) and not res[j].get("ok"):
                rep.violation("every package generates alone, but the %d-package configuration (order %s) fails: %s"
                              % (k, o, (res[j].get("stderr") or str(res[j].get("panic")))[:160]),
                              {"packages": e["pkgs"], "order": o, "files": e["files"], "global": e["glob"], "stderr": res[j].get("stderr")})
                continue
            for i in range(k):
                got = outs_of(res[j], i)
                if isinstance(singles[i], tuple) or isinstance(got, tuple):
                    # a failing package makes the whole run fail (C12); compare only when everything generated
                    continue
                if got != singles[i]:
                    diff = sorted(f for f in set(got) | set(singles[i]) if got.get(f) != singles[i].get(f))
                    rep.violation("package p%d generated in a %d-package configuration (order %s) differs from the package generated alone in %s" % (i, k, o, diff),
                                  {"packages": e["pkgs"], "order": o, "files": e["files"], "global": e["glob"], "differs": diff,
                                   "alone": {f: singles[i].get(f) for f in diff}, "together": {f: got.get(f) for f in diff}})
    # concurrent in-process generations vs serial
    conc_n = 12 if tier == "quick" else 40
    binary = HARNESS_BIN
    race = os.path.join(BUILD, "verifharness-race")
    if tier != "quick":
        rc, out = sh(["go", "build", "-race", "-tags", "verif", "-o", race, "."], cwd=os.path.join(VERIF, "harness"), env=GOENV, timeout=1800)
        if rc == 0:
            binary = race
    for r_i in range(conc_n):
        w = rng.choice([2, 4, 8, 16])
        cases = []
        for _ in range(w):
            k = rng.randint(1, 2)
            shared = rng.random() < 0.4
            pk = [(pkg_inputs_shared if shared else pkg_inputs)(rng, i) for i in range(k)]
            files = {}
            for _, f in pk:
                files.update(f)
            cases.append(job([p for p, _ in pk], files, {}))
        if rng.random() < 0.5:
            cases = cases[: w // 2] * 2      # identical inputs side by side
        serial = run_harness(cases)
        d = tempfile.mkdtemp(prefix="c19", dir=os.path.join(BUILD, "tmp"))
        try:
            jp, rp = os.path.join(d, "j.jsonl"), os.path.join(d, "r.jsonl")
            open(jp, "w").write(json.dumps({"id": 0, "op": "generate_concurrent", "cases": cases}) + "\n")
            p = subprocess.run([binary, jp, rp, "1"], stdout=subprocess.PIPE, stderr=subprocess.PIPE, text=True, timeout=900)
            rep.case(("concurrent", r_i, w), nontrivial=True)
            rep.count("concurrent-workers=%d" % w)
            if "DATA RACE" in p.stderr:
                rep.violation("the race detector reports a data race between concurrent cmd.Generate calls", {"workers": w, "report": p.stderr[:3000]})
            if p.returncode != 0 and "DATA RACE" not in p.stderr:
                rep.violation("concurrent generation crashed: " + p.stderr[-300:], {"workers": w})
                continue
            outs = json.loads(open(rp).read().splitlines()[0]).get("outs", [])
            for a, b in zip(serial, outs):
                if (a.get("ok"), a.get("out")) != (b.get("ok"), b.get("out")):
                    rep.violation("a generation running concurrently with others produced different output than when run alone", {"workers": w, "serial_ok": a.get("ok"), "concurrent": {k: b.get(k) for k in ("ok", "stderr", "panic")}})
                    break
        finally:
            shutil.rmtree(d, ignore_errors=True)
    rep.extra["race_detector"] = binary == race
    if getattr(rep, "proof_broken", None) and not rep.violations:
        rep.violation("proof obligation no longer checks: " + rep.proof_broken, {"theorem_file": "coq/theories/Props/C19.v", "detail": info}, no_input=True)
    return rep.finish("proof", ob, dis, checker_cmd(PROP),
                      rule="configurations of 2-4 packages (postgresql/mysql) that declare the same table, enum and function names with different definitions, package-level overrides, global renames/overrides; every package generated together (several orders of the list) and alone, byte comparison per output directory; 2-16 concurrent in-process cmd.Generate calls against serial runs (race-detector build in the thorough tier)",
                      assumptions=["the functional loop model cannot exhibit shared mutable state or races: that half of the property rests on the differential and race-instrumented runs",
                                   "quick tier runs the concurrent generations without the race detector"])
