"""C10 — Unresolvable or ambiguous names are rejected; resolvable ones accepted."""
from cq import *

PROP = "C10"
CLASSES = {1: "derived_table_columns_leak", 2: "update_from_returning_order", 3: "cte_alias_shared"}


def impl_kind(c, r):
    if "panic" in r:
        return ["3%N"]
    if r.get("ok"):
        return ["0%N"]
    msgs = " ".join(e.get("msg", "") for e in r.get("errs", []))
    if (("does not exist" in msgs and ('column "' in msgs or 'relation "' in msgs or 'schema "' in msgs)) or "is ambiguous" in msgs):
        return ["1%N"]
    return ["2%N"]


def classify(known, c, r):
    k = known % 10
    v = (known // 10) % 10       # the names property C10 lists: 0 resolve, 1/2/3 undefined relation / undefined column / ambiguous
    vd = (known // 100) % 10     # the same with result lists checked only where the column is itself a reference
    multi = (known // 1000) % 10
    if "panic" in r:
        return None
    if k in CLASSES:
        return CLASSES[k]
    if v != 0 and vd == 0 and r.get("ok"):
        return "unchecked_reference_in_expression"
    if multi:
        return "parameter_columns_resolved_against_all_query_levels"
    import re
    q = c["queries"].split("\n", 1)[1]
    marks = [re.sub(r"[\s'\"]", "", m.lower()).replace("sqlc.arg(", "@").rstrip(")") for m in re.findall(r"(?i)\$\d+|sqlc\.arg\([^)]*\)|@\w+", q)]
    if v != 0 and r.get("ok"):
        if "zq." in q:
            return "unknown_qualifier_next_to_parameter_accepted"
        if len(marks) != len(set(marks)):
            return "repeated_placeholder_first_context_only"
        if re.search(r"(?i)(\$\d+|sqlc\.arg\([^)]*\)|@\w+)\s*(=|<|>|LIKE|\|\||!)", q):
            return "placeholder_left_operand_unresolved"
        if re.search(r"(?i)(\$\d+|sqlc\.arg\([^)]*\)|@\w+)::", q):
            return "cast_placeholder_column_unresolved"
        if c.get("kind") == "insert" and "SELECT" in q:
            return "insert_select_source_unresolved"
    if v == 0 and not r.get("ok") and re.search(r"(?i)(\$\d+|sqlc\.arg\([^)]*\)|@\w+)\s+AS\s", q):
        return "placeholder_result_column_resolved_as_column"
    return None


def gen(rng):
    return gen_case(rng, corrupt=rng.choice([0.0, 0.0, 0.05, 0.15]))


def multi_statement(rep, rng, tier):
    """Whether the names of a statement resolve depends on that statement and the schema alone: a query file with 2-4
    statements over the same tables (aliased and not) must accept / reject each statement exactly as when it is the only
    statement of the file, and infer the same columns and parameters."""
    from qcommon import Schema, QGen
    n = 200 if tier == "quick" else 4000
    cases = []
    for _ in range(n):
        sch = Schema(rng)
        stmts = []
        for i in range(rng.randint(2, 4)):
            g = QGen(rng, sch, named="pos", corrupt=rng.choice([0.0, 0.0, 0.1]))
            sql, kind = g.statement()
            if rng.random() < 0.35:
                # the same table under an alias, then without: an alias must not outlive its statement
                t = rng.choice(list(sch.tables))
                c0 = sch.tables[t][0]
                al = rng.choice(["u", "x", "a"])
                sql, kind = rng.choice([("SELECT %s.%s FROM %s %s" % (al, c0, t, al), "select"), ("SELECT %s.* FROM %s AS %s" % (al, t, al), "select"),
                                        ("SELECT %s.%s FROM %s" % (t.split(".")[-1], c0, t), "select"), ("SELECT %s.%s FROM %s" % (al, c0, t), "select"),
                                        ("SELECT %s.* FROM %s" % (t.split(".")[-1], t), "select")])
            cmd = ":many" if kind in ("select", "cte") else ":exec"
            stmts.append("-- name: S%d %s\n%s;\n" % (i, cmd, sql))
        cases.append((sch.sql, stmts))
    jobs = []
    for schema, stmts in cases:
        jobs.append({"op": "compile", "engine": "postgresql", "schema": schema, "queries": "\n".join(stmts)})
        jobs += [{"op": "compile", "engine": "postgresql", "schema": schema, "queries": st} for st in stmts]
    res = run_harness(jobs)
    pos = 0
    for schema, stmts in cases:
        together, alone = res[pos], res[pos + 1:pos + 1 + len(stmts)]
        pos += 1 + len(stmts)
        syntax = lambda r: any("syntax error" in (e.get("msg") or "") for e in (r.get("errs") or []))
        if together.get("stage") == "schema" or any("panic" in r for r in [together] + alone) or syntax(together) or any(syntax(r) for r in alone):
            # a file that does not parse is rejected as a whole (one diagnostic for the file), not statement by statement
            rep.count("multi-statement:skipped")
            continue
        rep.case(("multi-statement", schema, tuple(stmts)), nontrivial=True)
        replay = {"schema": schema, "queries": "\n".join(stmts)}
        starts, line = [], 1
        for st in stmts:
            starts.append(line)
            line += st.count("\n") + 1
        span = lambda i: (starts[i], (starts[i + 1] - 1) if i + 1 < len(stmts) else 10 ** 9)
        bad_alone = [i for i, r in enumerate(alone) if not r.get("ok")]
        if together.get("ok"):
            bad_together = []
        else:
            bad_together = sorted(set(i for e in together.get("errs", []) for i in range(len(stmts)) if span(i)[0] <= (e.get("line") or 0) <= span(i)[1]))
        rep.count("multi-statement:%d-of-%d-rejected" % (len(bad_alone), len(stmts)))
        if bad_alone != bad_together:
            rep.violation("in a file of %d statements the rejected ones are %s; compiled one by one they are %s: whether a statement's names resolve depends on its neighbours"
                          % (len(stmts), bad_together, bad_alone), dict(replay, together=together.get("errs"), alone=[r.get("errs") for r in alone]))
        elif together.get("ok"):
            view = lambda q: (q["name"], q["sql"], q["columns"], q["params"])
            want = [view(q) for r in alone for q in r.get("queries", [])]
            got = [view(q) for q in together.get("queries", [])]
            if want != got:
                k = next((i for i, (a, b) in enumerate(zip(want, got)) if a != b), None)
                rep.violation("statement %s compiles to different SQL / columns / parameters next to the other statements of the file than alone" % (got[k][0] if k is not None else "?"),
                              dict(replay, alone=want[k] if k is not None else None, together=got[k] if k is not None else None))


def run(tier, seed):
    return run_query_property(
        PROP, "judge_c10", "From Verif Require Import Judge.J02.", {},
        rule="random valid statements plus single-name corruptions (unknown relation, unknown column, a second table with the same column added to the from-list) in every clause; files of 2-4 statements over the same tables (aliased / not) against the same statements compiled one by one; Spec/PgScope.pg_names_ok decides whether the names property C10 lists resolve",
        assumptions=["Spec/PgScope stands in for PostgreSQL's name resolution"],
        tier=tier, seed=seed, what="accept/reject decision differs from name resolution in the statement's scope",
        extra_args=impl_kind, classify=classify, gen=gen, pre_finish=multi_statement)
