"""C10 — Unresolvable or ambiguous names are rejected; resolvable ones accepted."""
from cq import *

PROP = "C10"
CLASSES = {1: "derived_table_columns_leak", 2: "update_from_returning_order", 3: "cte_alias_shared"}


def impl_kind(c, r):
    if "panic" in r:
        return ["3%N"]
    if r.get("ok"):
        return ["0%N"]
    msgs = " ".join(e.get("msg", "") for e in r.get("errs", []))
    if (("does not exist" in msgs and ('column "' in msgs or 'relation "' in msgs or 'schema "' in msgs)) or "is ambiguous" in msgs):
        return ["1%N"]
    return ["2%N"]


def classify(known, c, r):
    k = known % 10
    v = (known // 10) % 10       # the names property C10 lists: 0 resolve, 1/2/3 undefined relation / undefined column / ambiguous
    vd = (known // 100) % 10     # the same with result lists checked only where the column is itself a reference
    multi = (known // 1000) % 10
    if "panic" in r:
        return None
    if k in CLASSES:
        return CLASSES[k]
    if v != 0 and vd == 0 and r.get("ok"):
        return "unchecked_reference_in_expression"
    if multi:
        return "parameter_columns_resolved_against_all_query_levels"
    import re
    q = c["queries"].split("\n", 1)[1]
    marks = [re.sub(r"[\s'\"]", "", m.lower()).replace("sqlc.arg(", "@").rstrip(")") for m in re.findall(r"(?i)\$\d+|sqlc\.arg\([^)]*\)|@\w+", q)]
    if v != 0 and r.get("ok"):
        if "zq." in q:
            return "unknown_qualifier_next_to_parameter_accepted"
        if len(marks) != len(set(marks)):
            return "repeated_placeholder_first_context_only"
        if re.search(r"(?i)(\$\d+|sqlc\.arg\([^)]*\)|@\w+)\s*(=|<|>|LIKE|\|\||!)", q):
            return "placeholder_left_operand_unresolved"
        if re.search(r"(?i)(\$\d+|sqlc\.arg\([^)]*\)|@\w+)::", q):
            return "cast_placeholder_column_unresolved"
        if c.get("kind") == "insert" and "SELECT" in q:
            return "insert_select_source_unresolved"
    if v == 0 and not r.get("ok") and re.search(r"(?i)(\$\d+|sqlc\.arg\([^)]*\)|@\w+)\s+AS\s", q):
        return "placeholder_result_column_resolved_as_column"
    return None


def gen(rng):
    if rng.random() < 0.06:
        # a quoted identifier may contain a dot: "m.total" is ONE name, not qualifier m and column total
        schema = 'CREATE TABLE metrics (id int PRIMARY KEY, total int, name text, "m.total" text, "x.y" int);\n'
        sql = rng.choice(['SELECT "m.total" FROM metrics m', 'SELECT "m.name" FROM metrics m', 'SELECT id FROM metrics m WHERE "m.total" = $1',
                          'SELECT id FROM metrics m WHERE "m.id" = $1', 'SELECT m."m.total", m.total FROM metrics m', 'SELECT "x.y", "metrics.id" FROM metrics',
                          'SELECT "x.y" AS v FROM metrics x WHERE x.total > $1', 'DELETE FROM metrics WHERE "m.total" = $1 RETURNING "m.total"',
                          'UPDATE metrics SET total = $1 RETURNING "metrics.total"', 'SELECT "metrics.total" FROM metrics'])
        return {"schema": schema, "queries": "-- name: Q1 :many\n%s;\n" % sql, "kind": "select", "style": "dotted-identifier"}
    return gen_case(rng, corrupt=rng.choice([0.0, 0.0, 0.05, 0.15]))


def run(tier, seed):
    return run_query_property(
        PROP, "judge_c10", "From Verif Require Import Judge.J02.", {},
        rule="random valid statements plus single-name corruptions (unknown relation, unknown column, a second table with the same column added to the from-list) in every clause; files of 2-4 statements over the same tables (aliased / not) against the same statements compiled one by one; Spec/PgScope.pg_names_ok decides whether the names property C10 lists resolve",
        assumptions=["Spec/PgScope stands in for PostgreSQL's name resolution"],
        tier=tier, seed=seed, what="accept/reject decision differs from name resolution in the statement's scope",
        extra_args=impl_kind, classify=classify, gen=gen)
