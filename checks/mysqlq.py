"""MySQL side of the query properties C03 (the k-th argument feeds the k-th `?` in text order), C04 (the embedded SQL is
the user's statement) and C07 (star expansion, MySQL quoting).  The statements are BUILT from pieces, so the generator knows
for every `?` - in text order - the column it is compared with or assigned to, and for every star the columns it stands
for: the oracle is the construction, independent of sqlc.  Shapes whose placeholders the MySQL converter is known to lose
(IN lists, BETWEEN, LIKE, IS NULL, LIMIT ?, ?) are not generated here; they are C03's known findings on the PostgreSQL side
of the check and in the C18 pools."""
import random
import re
from common import *

RESERVED_COLS = ["key", "order", "group", "rows", "rank", "read_write", "sql_big_result", "row_number"]
PLAIN_COLS = ["name", "bio", "price", "title", "stars", "age", "note"]
TYPES = ["int", "varchar(32)", "text", "bigint", "datetime"]


def reserved_words():
    src = open(os.path.join(COQDIR, "theories", "Gen", "Reserved.v")).read()
    m = re.search(r"Definition my_reserved : list string :=\s*\[(.*?)\]\.", src, re.S)
    return set(re.findall(r'"([^"]*)"', m.group(1)))


def bq(name, reserved):
    return "`%s`" % name if name.lower() in reserved else name


class MySchema:
    def __init__(self, rng, reserved):
        self.tables = {}
        self.reserved = reserved
        lines = []
        for t in rng.sample(["authors", "books", "reviews", "import_jobs"], rng.randint(2, 3)):
            cols = ["id"] + rng.sample(PLAIN_COLS, rng.randint(1, 3)) + rng.sample(RESERVED_COLS, rng.randint(0, 2))
            self.tables[t] = cols
            lines.append("CREATE TABLE %s (%s);" % (t, ", ".join("`%s` %s%s" % (c, "int" if c == "id" else rng.choice(TYPES),
                                                                             " NOT NULL" if rng.random() < 0.5 else "") for c in cols)))
        self.sql = "\n".join(lines) + "\n"


def gen_case(rng, reserved):
    """returns {"schema", "queries", "marks": [column name per ? in text order], "star": expected text or None, "text": statement}"""
    s = MySchema(rng, reserved)
    tabs = list(s.tables)
    q = lambda c: "`%s`" % c if c.lower() in reserved or rng.random() < 0.1 else c
    lit = lambda: rng.choice(["'x'", "'a?b'", "'semi;colon'", "'%;%'", "'it''s'", "'-- no'"])
    marks = []
    star = None

    def cmp_(alias, t, allow_lit=True):
        c = rng.choice(s.tables[t])
        ref = "%s.%s" % (alias, q(c)) if alias else q(c)
        if allow_lit and rng.random() < 0.25:
            return "%s %s %s" % (ref, rng.choice(["=", "<>"]), lit())
        marks.append(c)
        return "%s %s ?" % (ref, rng.choice(["=", ">", "<", "<>", ">=", "<="]))

    kind = rng.choice(["select", "select", "star", "star", "joinstar", "join", "derived", "chain", "insert", "update", "delete", "setop"])
    cols_expected = None
    t = rng.choice(tabs)
    cols = s.tables[t]
    if kind == "select":
        tg = rng.sample(cols, rng.randint(1, len(cols)))
        text = "SELECT %s FROM %s WHERE %s" % (", ".join(q(c) for c in tg), t, " AND ".join(cmp_("", t) for _ in range(rng.randint(1, 3))))
        if rng.random() < 0.3:
            text += " ORDER BY %s" % q(rng.choice(cols))
    elif kind == "star":
        how = rng.random()
        if how < 0.5:
            text = "SELECT * FROM %s" % t
            star = "SELECT %s FROM %s" % (", ".join(bq(c, reserved) for c in cols), t)
        else:
            al = rng.choice(["a", "x", "t1"])
            text = "SELECT %s.* FROM %s %s" % (al, t, al)
            star = "SELECT %s FROM %s %s" % (", ".join("%s.%s" % (al, bq(c, reserved)) for c in cols), t, al)
        if rng.random() < 0.6:
            w = " WHERE " + cmp_("", t)
            text += w
            star += w
    elif kind == "setop" and len(tabs) > 1:
        # a set operation with two to four operands: the result row is named and typed after the FIRST operand
        ops = [t] + [rng.choice(tabs) for _ in range(rng.randint(1, 3))]
        k_ = rng.randint(1, 2)
        arms = []
        for j_, tb in enumerate(ops):
            cs = rng.sample(s.tables[tb], min(k_, len(s.tables[tb])))
            while len(cs) < k_:
                cs.append(cs[0])
            arms.append("SELECT %s FROM %s" % (", ".join(q(c_) for c_ in cs), tb))
            if j_ == 0:
                cols_expected = list(cs)
        text = (" %s " % rng.choice(["UNION", "UNION ALL"])).join(arms)
    elif kind == "joinstar" and len(tabs) > 1:
        # a bare star over two joined tables: the left table's columns first, whatever the kind of join
        u = rng.choice([x for x in tabs if x != t])
        jt = rng.choice(["JOIN", "LEFT JOIN", "RIGHT JOIN", "INNER JOIN", "RIGHT OUTER JOIN", "LEFT OUTER JOIN"])
        both = cols + s.tables[u]
        exp = []
        for tb in (t, u):
            for c_ in s.tables[tb]:
                exp.append(("%s.%s" % (tb, bq(c_, reserved))) if both.count(c_) > 1 else bq(c_, reserved))
        text = "SELECT * FROM %s %s %s ON %s.id = %s.id" % (t, jt, u, t, u)
        star = "SELECT %s FROM %s %s %s ON %s.id = %s.id" % (", ".join(exp), t, jt, u, t, u)
    elif kind in ("join", "derived", "chain", "joinstar"):
        if kind == "joinstar":
            kind = "join"
        others = [x for x in tabs if x != t]
        u = rng.choice(others)
        if kind == "join":
            text = "SELECT a.id, b.id FROM %s a JOIN %s b ON a.id = b.id AND %s WHERE %s" % (t, u, cmp_("b", u, False), cmp_("a", t, False))
        elif kind == "derived" and not [x for x in s.tables[u] if x not in cols]:
            text = "SELECT a.id, b.id FROM %s a JOIN %s b ON a.id = b.id AND %s WHERE %s" % (t, u, cmp_("b", u, False), cmp_("a", t, False))
        elif kind == "derived":
            # the inner column must not exist in the outer table: sqlc resolves a parameter's column against every table of the
            # statement (known finding parameter_columns_resolved_against_all_query_levels), which is not what is tested here
            inner_c = rng.choice([x for x in s.tables[u] if x not in cols])
            marks.append(inner_c)
            text = "SELECT a.id FROM %s a %sJOIN (SELECT id, %s FROM %s WHERE %s > ?) b ON a.id = b.id" % (
                t, rng.choice(["", "LEFT "]), q(inner_c), u, q(inner_c))
            marks.append(inner_c)
            text += " AND b.%s = ? WHERE %s" % (q(inner_c), cmp_("a", t, False))
        else:
            w = rng.choice(tabs)
            text = "SELECT a.id FROM %s a JOIN %s b ON a.id = b.id AND %s JOIN %s r ON r.id = b.id AND %s WHERE %s" % (
                t, u, cmp_("b", u, False), w, cmp_("r", w, False), cmp_("a", t, False))
    elif kind == "insert":
        cs = rng.sample(cols, rng.randint(1, len(cols)))
        rows = []
        for _ in range(rng.choice([1, 1, 2])):
            vals = []
            for c in cs:
                if rng.random() < 0.8:
                    marks.append(c)
                    vals.append("?")
                else:
                    vals.append(lit())
            rows.append("(%s)" % ", ".join(vals))
        text = "INSERT INTO %s (%s) VALUES %s" % (t, ", ".join(q(c) for c in cs), ", ".join(rows))
    elif kind == "update":
        cs = rng.sample(cols, rng.randint(1, min(2, len(cols))))
        sets = []
        for c in cs:
            marks.append(c)
            sets.append("%s = ?" % q(c))
        text = "UPDATE %s SET %s WHERE %s" % (t, ", ".join(sets), cmp_("", t))
    else:
        text = "DELETE FROM %s WHERE %s" % (t, " AND ".join(cmp_("", t) for _ in range(rng.randint(1, 2))))
    # layout: comments and a statement-final comment with a semicolon inside
    if rng.random() < 0.25:
        text = text.replace(" WHERE ", " -- exact match; no wildcards\nWHERE ", 1) if " WHERE " in text else text
        if star is not None:
            star = star.replace(" WHERE ", " -- exact match; no wildcards\nWHERE ", 1) if " WHERE " in star else star
    cmd = ":many" if text.startswith("SELECT") else ":exec"
    src = "%s name: Q %s%s\n%s;\n" % (rng.choice(["--", "--", "/*", "#"]), cmd, "", text)
    src = src.replace("/* name: Q %s\n" % cmd, "/* name: Q %s */\n" % cmd)
    return {"schema": s.sql, "queries": src, "marks": marks, "star": star, "text": text, "kind": kind, "cols": cols_expected}


def lexemes(sql):
    """the statement without comments (-- .., # .., /* .. */), blanks collapsed; literals and quoted identifiers kept verbatim"""
    out, i, n = [], 0, len(sql)
    while i < n:
        ch = sql[i]
        if ch in "'`\"":
            j = i + 1
            while j < n:
                if sql[j] == ch:
                    if j + 1 < n and sql[j + 1] == ch:
                        j += 2
                        continue
                    break
                j += 1
            out.append(sql[i:j + 1])
            i = j + 1
        elif sql.startswith("--", i) or ch == "#":
            while i < n and sql[i] != "\n":
                i += 1
        elif sql.startswith("/*", i):
            j = sql.find("*/", i + 2)
            i = n if j < 0 else j + 2
        elif ch.isspace():
            if out and out[-1] != " ":
                out.append(" ")
            i += 1
        else:
            out.append(ch)
            i += 1
    return "".join(out).strip()


def mysql_subcheck(rep, prop, seed, n):
    reserved = reserved_words()
    rng = random.Random(seed * 104729 + 5)
    cases = [gen_case(rng, reserved) for _ in range(n)]
    res = run_harness([{"op": "compile", "engine": "mysql", "schema": c["schema"], "queries": c["queries"]} for c in cases])
    for c, r in zip(cases, res):
        rep.count("mysql:%s" % c["kind"])
        replay = {"engine": "mysql", "schema": c["schema"], "queries": c["queries"], "impl": {k: r.get(k) for k in ("ok", "errs", "queries", "panic")}}
        if "panic" in r:
            rep.violation("sqlc panics on a MySQL statement: " + r["panic"][:120], replay)
            continue
        if not r.get("ok") or len(r.get("queries") or []) != 1:
            rep.violation("a valid MySQL statement is rejected: %s" % str(r.get("errs"))[:160], replay)
            continue
        q = r["queries"][0]
        if prop == "C02":
            if c.get("cols") is not None and [x["name"] for x in q["columns"]] != c["cols"]:
                rep.violation("MySQL: the result columns of a set operation are %s, its first operand returns %s" % ([x["name"] for x in q["columns"]], c["cols"]), dict(replay, expected=c["cols"]))
        elif prop == "C06":
            # every ? is typed and named after the column it stands next to (in text order)
            got = [(p["column"] or {}).get("name") for p in sorted(q["params"], key=lambda p: p["number"])]
            if got != c["marks"]:
                rep.violation("MySQL: the parameters are typed / named after columns %s, the `?` marks stand next to %s" % (got, c["marks"]), dict(replay, expected=c["marks"]))
        elif prop == "C03":
            got = [(p["number"], (p["column"] or {}).get("name")) for p in sorted(q["params"], key=lambda p: p["number"])]
            want = list(enumerate(c["marks"], 1))
            nmarks = q["sql"].count("?") - sum(l.count("?") for l in re.findall(r"'(?:[^']|'')*'", q["sql"]))
            if nmarks != len(want) or [g[0] for g in got] != [w[0] for w in want]:
                rep.violation("MySQL: the embedded SQL has %d `?` marks, the method takes parameters %s (expected one per mark, numbered in text order)"
                              % (nmarks, [g[0] for g in got]), dict(replay, expected=want))
            elif [g[1] for g in got] != [w[1] for w in want]:
                rep.violation("MySQL: the k-th argument does not feed the k-th `?` in text order: parameters are typed after columns %s, the marks stand next to %s"
                              % ([g[1] for g in got], [w[1] for w in want]), dict(replay, expected=want))
        elif prop == "C04":
            if c["star"] is None and lexemes(q["sql"]) != lexemes(c["text"]):
                rep.violation("MySQL: the embedded SQL is not the source statement", dict(replay, expected=c["text"], embedded=q["sql"]))
        elif prop == "C07":
            if c["star"] is not None and lexemes(q["sql"]) != lexemes(c["star"]):
                rep.violation("MySQL: star expansion is not the catalog's columns in declaration order with reserved words quoted",
                              dict(replay, expected=c["star"], embedded=q["sql"]))
