"""File-level runner (C04, C17): query files with several statements and random layout."""
import json
import random
import re
from common import *
from qcommon import *

HEADER_F = HEADER + "From Verif Require Import Judge.JF.\n"

LITS = ["'x'", "'a -- b'", "'$1'", "'*'", "'@x'", "'it''s'", "'café'", "'/* c */'", "'; DROP'", "'sqlc.arg(x)'"]


def relayout(rng, sql, multibyte=True, multiline_lit=0.03):
    """spread a one-line statement over lines with indentation, inline and block comments"""
    # vary literals
    def lit(m):
        if rng.random() < multiline_lit:
            return "'a\n-- b'"
        return rng.choice(LITS) if rng.random() < 0.5 else m.group(0)
    sql = re.sub(r"'x'", lit, sql)
    out = []
    toks = sql.split(" ")
    for i, t in enumerate(toks):
        out.append(t)
        if i == len(toks) - 1:
            break
        r = rng.random()
        if r < 0.03:
            out.append("\n/* %s */ " % rng.choice(["lead", "active only", "x -- y"]))
        elif r < 0.12:
            out.append("\n" + rng.choice(["", "  ", "\t", "    "]))
        elif r < 0.15:
            out.append(" -- %s\n%s" % (rng.choice(["note", "café ☃" if multibyte else "n", "$9 * @y"]), rng.choice(["", "  "])))
        elif r < 0.18:
            out.append(" /* %s */ " % rng.choice(["c", "-- x", "multi\n   line" if rng.random() < 0.3 else "b"]))
        elif r < 0.20:
            out.append("  ")
        elif r < 0.24:
            out.append(" /* %s */\n%s" % (rng.choice(["why", "surrogate key", "x -- y", "a * b"]), rng.choice(["", "  "])))   # a block comment that closes the line
        else:
            out.append(" ")
    return "".join(out)


def gen_file(rng, errors=0.0, engine="postgresql", sch=None, prefix="Q"):
    sch = sch or Schema(rng)
    k = rng.randint(1, 5)
    parts, kinds = [], []
    if rng.random() < 0.3:
        parts.append(rng.choice(["-- queries for the thing\n", "\n\n", "/* header */\n", "-- été ☃\n\n"]))
    glue_next = False
    for i in range(k):
        glued, glue_next = glue_next, (i < k - 1 and rng.random() < 0.08)
        bad = rng.random() < errors
        g = QGen(rng, sch, corrupt=(0.6 if bad and rng.random() < 0.6 else 0.0))
        sql, kind = g.statement()
        if bad and rng.random() < 0.25:
            # the same kind of error several times in one file (and package): a call of the same unknown function / a known
            # function with the wrong number of arguments, at different places - each diagnostic has its own position
            t = rng.choice(list(sch.tables))
            c0 = rng.choice(sch.tables[t])
            call = rng.choice(["nosuchfn(%d)" % rng.randint(1, 99), "nosuchfn(%s)" % c0, "lower(%s, %d)" % (c0, rng.randint(1, 9)), "random(%d)" % rng.randint(1, 99)])
            sql, kind = rng.choice(["SELECT %s, %s FROM %s" % (c0, call, t), "SELECT %s FROM %s WHERE %s = %s" % (c0, t, c0, call),
                                    "SELECT %s FROM %s WHERE %s IS NOT NULL AND %s > 0" % (c0, t, c0, call)]), "select"
        if rng.random() < 0.04:
            sql, kind = "TABLE %s" % rng.choice(list(sch.tables) + ["nosuch"]), "select"      # shorthand for SELECT * FROM t
        cmd = rng.choice([":one", ":many", ":exec", ":execrows"]) if kind not in ("select", "cte") else rng.choice([":one", ":many"])
        if bad and rng.random() < 0.3 and kind in ("insert", "update", "delete"):
            sql = sql.split(" RETURNING")[0]
            cmd = ":one"
        name = "%s%d" % (prefix, i + 1)
        ann = "-- name: %s %s" % (name, cmd)
        if rng.random() < 0.15:
            ann = "/* name: %s %s */" % (name, cmd)
        if bad and rng.random() < 0.15:
            ann = rng.choice(["-- name: %s" % name, "-- name: %s :wat" % name, "-- name: 9x %s" % cmd, "-- name: %s %s extra" % (name, cmd)])
        pre = "".join(rng.choice(["", "", "\n", "\n\n", "  \n"]) for _ in range(2))
        doc_before = "".join("-- %s\n" % rng.choice(["doc line", "café", "returns $1", "TODO: *"]) for _ in range(rng.choice([0, 0, 1])))
        if glued:
            # the annotation stands on the line of the previous statement's semicolon: `...; -- name: X :cmd`
            pre, doc_before = " ", ""
            if ann.startswith("/*"):
                ann = "-- name: %s %s" % (name, cmd)
        doc_after = "".join("--%s\n" % rng.choice([" explains", "x", " uses @x and $2", ""]) for _ in range(rng.choice([0, 0, 1, 2])))
        body = relayout(rng, sql)
        parts.append("%s%s%s\n%s%s;%s" % (pre, doc_before, ann, doc_after, body, "" if glue_next else rng.choice(["\n", "\n\n", " -- done\n", "\n"])))
        kinds.append(kind)
    src = "".join(parts)
    if rng.random() < 0.1:
        src = src.rstrip("\n")
    style = "layout"
    if rng.random() < 0.06 and "\r" not in src:
        src = src.replace("\n", "\r\n")        # a file saved with Windows line endings
        style = "layout+crlf"
    return {"schema": sch.sql, "queries": src, "kind": "file:%d" % k, "style": style}


def impl_args(r):
    ok = bool(r.get("ok"))
    panic = "panic" in r
    qs = coqlist([query_coq(q) for q in r.get("queries") or []]) if ok else "[]"
    errs = "[]"
    if not ok and not panic:
        errs = coqlist(["((%d)%%Z, (%d)%%Z)" % (e.get("line", 0), e.get("col", 0)) for e in r.get("errs", [])])
    return "%s %s %s %s" % (coqbool(ok), coqbool(panic), qs, errs)


def run_files(rep, cases, engine="postgresql"):
    """yields (case, result, verdict [wf; known04; holds04; diff; holds17])"""
    for lo in range(0, len(cases), 2000):
        chunk = cases[lo:lo + 2000]
        res = run_harness(compile_jobs(chunk, engine=engine))
        exprs, idx = [], []
        for i, (c, r) in enumerate(zip(chunk, res)):
            if r.get("stage") == "schema" or "ast" not in r:
                rep.count("skipped:schema-or-syntax")
                continue
            exprs.append("judge_file %s %s %s %s" % (env_coq(r, engine), coqlist([node_coq(a) for a in r["ast"]]),
                                                   coqstr(c["queries"]), impl_args(r)))
            idx.append(i)
        for i, v in zip(idx, coq_eval(HEADER_F, exprs, tag="cfile")):
            yield chunk[i], res[i], v
