"""Generic runner for the query-level properties: generate schemas + single-statement
query files, run them through the real compiler (harness op `compile`), evaluate
a Gallina judge `judge e raw src impl : list N = [wf; known; holds; diff]` on
the parser's AST and on what sqlc produced."""
import json
import random
from common import *
from qcommon import *

DIFF_BITS = {1: "name/cmd", 2: "sql", 4: "comments", 8: "params", 16: "columns", 32: "outcome"}


def diff_str(d):
    return "+".join(v for k, v in DIFF_BITS.items() if d & k) or "none"


def multi_statement(rep, rng, tier):
    """Whether the names of a statement resolve depends on that statement and the schema alone: a query file with 2-4
    statements over the same tables (aliased and not) must accept / reject each statement exactly as when it is the only
    statement of the file, and infer the same columns and parameters."""
    from qcommon import Schema, QGen
    n = 200 if tier == "quick" else 4000
    cases = []
    for _ in range(n):
        sch = Schema(rng)
        stmts = []
        for i in range(rng.randint(2, 4)):
            g = QGen(rng, sch, named="pos", corrupt=rng.choice([0.0, 0.0, 0.1]))
            sql, kind = g.statement()
            if rng.random() < 0.35:
                # the same table under an alias, then without: an alias must not outlive its statement
                t = rng.choice(list(sch.tables))
                c0 = sch.tables[t][0]
                al = rng.choice(["u", "x", "a"])
                sql, kind = rng.choice([("SELECT %s.%s FROM %s %s" % (al, c0, t, al), "select"), ("SELECT %s.* FROM %s AS %s" % (al, t, al), "select"),
                                        ("SELECT %s.%s FROM %s" % (t.split(".")[-1], c0, t), "select"), ("SELECT %s.%s FROM %s" % (al, c0, t), "select"),
                                        ("SELECT %s.* FROM %s" % (t.split(".")[-1], t), "select")])
            cmd = ":many" if kind in ("select", "cte") else ":exec"
            stmts.append("-- name: S%d %s\n%s;\n" % (i, cmd, sql))
        if rng.random() < 0.2:
            # a CTE named like a real table, then a statement WITHOUT a WITH clause that reads the table: the CTE must be
            # gone (it has other columns than the table)
            t = rng.choice([x for x in sch.tables if "." not in x and not x.startswith('"')] or ["t"])
            if t in sch.tables:
                c0 = sch.tables[t][0]
                k0 = len(stmts)
                stmts.append("-- name: S%d :many\nWITH %s AS (SELECT %s AS only_one FROM %s) SELECT * FROM %s;\n" % (k0, t, c0, t, t))
                stmts.append("-- name: S%d :many\n%s;\n" % (k0 + 1, rng.choice(["SELECT * FROM %s" % t, "SELECT %s.* FROM %s" % (t, t),
                                                                                "DELETE FROM %s WHERE %s IS NULL RETURNING *" % (t, c0)])))
        cases.append((sch.sql, stmts))
    jobs = []
    for schema, stmts in cases:
        jobs.append({"op": "compile", "engine": "postgresql", "schema": schema, "queries": "\n".join(stmts)})
        jobs += [{"op": "compile", "engine": "postgresql", "schema": schema, "queries": st} for st in stmts]
    res = run_harness(jobs)
    pos = 0
    for schema, stmts in cases:
        together, alone = res[pos], res[pos + 1:pos + 1 + len(stmts)]
        pos += 1 + len(stmts)
        syntax = lambda r: any("syntax error" in (e.get("msg") or "") for e in (r.get("errs") or []))
        if together.get("stage") == "schema" or any("panic" in r for r in [together] + alone) or syntax(together) or any(syntax(r) for r in alone):
            # a file that does not parse is rejected as a whole (one diagnostic for the file), not statement by statement
            rep.count("multi-statement:skipped")
            continue
        rep.case(("multi-statement", schema, tuple(stmts)), nontrivial=True)
        replay = {"schema": schema, "queries": "\n".join(stmts)}
        starts, line = [], 1
        for st in stmts:
            starts.append(line)
            line += st.count("\n") + 1
        span = lambda i: (starts[i], (starts[i + 1] - 1) if i + 1 < len(stmts) else 10 ** 9)
        bad_alone = [i for i, r in enumerate(alone) if not r.get("ok")]
        if together.get("ok"):
            bad_together = []
        else:
            bad_together = sorted(set(i for e in together.get("errs", []) for i in range(len(stmts)) if span(i)[0] <= (e.get("line") or 0) <= span(i)[1]))
        rep.count("multi-statement:%d-of-%d-rejected" % (len(bad_alone), len(stmts)))
        if bad_alone != bad_together:
            rep.violation("in a file of %d statements the rejected ones are %s; compiled one by one they are %s: whether a statement's names resolve depends on its neighbours"
                          % (len(stmts), bad_together, bad_alone), dict(replay, together=together.get("errs"), alone=[r.get("errs") for r in alone]))
        elif together.get("ok"):
            view = lambda q: (q["name"], q["sql"], q["columns"], q["params"])
            want = [view(q) for r in alone for q in r.get("queries", [])]
            got = [view(q) for q in together.get("queries", [])]
            if want != got:
                k = next((i for i, (a, b) in enumerate(zip(want, got)) if a != b), None)
                rep.violation("statement %s compiles to different SQL / columns / parameters next to the other statements of the file than alone" % (got[k][0] if k is not None else "?"),
                              dict(replay, alone=want[k] if k is not None else None, together=got[k] if k is not None else None))



def run_query_property(prop, judge, imports, known_map, rule, assumptions, tier, seed, n_quick=1200, n_thorough=30000,
                       gen=None, engine="postgresql", extra=None, corr_name="compile", what="the property fails", extra_args=None,
                       classify=None, with_generate=False, second=None, chunk_hook=None, positional=False, pre_finish=None):
    """known_map: class number -> known-finding class name; gen(rng) -> case dict"""
    rep = Report(prop, tier, seed)
    ok, info = prep(prop)
    ob, dis = proof_gate(rep, prop, ok, info)
    rng = random.Random(seed)
    n = n_quick if tier == "quick" else n_thorough
    header = HEADER + imports + "\n"
    cases = []
    cpath = os.path.join(VERIF, "corpus", prop + ".json")
    if os.path.exists(cpath):
        cases += json.load(open(cpath))
    gen = gen or gen_case
    cases += [gen(rng) for _ in range(n)]
    for lo in range(0, len(cases), 3000):
        chunk = cases[lo:lo + 3000]
        res = run_harness(compile_jobs(chunk, engine=engine, positional=positional))
        gens = [None] * len(chunk)
        if with_generate:
            cfg = json.dumps({"version": "1", "packages": [{"path": "db", "engine": engine, "schema": "schema.sql",
                              "queries": "query.sql", "emit_db_tags": True}]})
            gens = run_harness([{"op": "generate", "summary": True, "nofiles": True,
                                 "files": {"sqlc.json": cfg, "schema.sql": c["schema"], "query.sql": c["queries"]}} for c in chunk])
        exprs, idx = [], []
        for i, (c, r) in enumerate(zip(chunk, res)):
            if "panic" in r and "ast" not in r:
                rep.count("panic-without-ast")
                rep.violation("Go panic in the compiler: " + r["panic"][:200], {"schema": c["schema"], "queries": c["queries"]})
                continue
            if r.get("stage") == "schema" or "ast" not in r or len(r["ast"]) != 1:
                rep.count("skipped:schema-or-syntax")
                continue
            impl = impl_outcome_coq(r)
            if impl is None:
                rep.count("skipped:multi")
                continue
            if with_generate:
                r = dict(r)
                r["_gen"] = gens[i]
                res[i] = r
            xa = " ".join(extra_args(c, r)) if extra_args else ""
            exprs.append("%s %s %s %s %s %s" % (judge, env_coq(r, engine), node_coq(r["ast"][0]), coqstr(c["queries"]), xa, impl))
            idx.append(i)
        verdicts = coq_eval(header, exprs, tag=prop.lower())
        if chunk_hook is not None:
            chunk_hook(rep, chunk, res, dict(zip(idx, verdicts)))
        if second is not None:
            mk, handle = second
            ex2, ix2 = [], []
            for i in idx:
                e2 = mk(chunk[i], res[i], env_coq(res[i], engine))
                if e2 is not None:
                    ex2.append(e2)
                    ix2.append(i)
            for i, v2 in zip(ix2, coq_eval(header, ex2, tag=prop.lower() + "go")):
                c, r = chunk[i], res[i]
                handle(rep, c, r, v2, {"schema": c["schema"], "queries": c["queries"],
                                      "impl": {k: r.get(k) for k in ("ok", "errs", "queries")},
                                      "go": (r.get("_gen") or {}).get("summary", {}).get("db/query.sql.go", {}).get("methods")})
        for i, v in zip(idx, verdicts):
            c, r = chunk[i], res[i]
            wf, known, holds, diff = v
            accepted = bool(r.get("ok"))
            rep.case((c["schema"], c["queries"]), nontrivial=True,
                     sample={"schema": c["schema"], "query": c["queries"], "accepted": accepted} if (lo + i) % 331 == 0 else None)
            rep.count("kind:" + c.get("kind", "?"))
            rep.count("style:" + c.get("style", "?"))
            rep.count("accepted" if accepted else ("panic" if "panic" in r else "rejected"))
            if known:
                rep.count("known-class:%d" % known)
            replay = {"schema": c["schema"], "queries": c["queries"], "impl": {k: r.get(k) for k in ("ok", "errs", "queries", "panic")}}
            blind = bool(wf & 2)
            if wf & 4:
                rep.count("not-judged-by-spec")
            wf = wf & 1
            if blind:
                rep.count("model-blind:cte-alias-shared")
            if not wf:
                rep.violation("the parser's AST violates the walk order table (wf_order) - the tie to walk.go is broken - or, in the C03 check, the shape the no-panic theorems assume (Model/Shape.v shape_ok, inserts_ok)", replay, no_input=True)
                continue
            reparse = (not accepted) and any("edited query syntax is invalid" in e.get("msg", "") for e in r.get("errs", []))
            if extra is not None:
                extra(rep, c, r, v, replay)
            if not holds:
                klass = classify(known, c, r) if classify else known_map.get(known)
                rep.violation("%s (class %s)" % (what, klass if klass else known), replay, klass=klass)
            elif diff and not blind and not (reparse and diff == 32):
                rep.violation("correspondence corr:%s:%s broken: model and sqlc differ in %s; the property holds on this input"
                              % (prop, corr_name, diff_str(diff)), replay, no_input=True)
            if reparse:
                rep.count("reparse-rejected")
    if engine == "postgresql" and prop in ("C02", "C05", "C06", "C07", "C10"):
        import c08
        c08.history_subcheck(rep, prop, seed, 2500 if tier == "quick" else 20000)
    if engine == "postgresql" and prop in ("C02", "C05", "C06", "C07", "C10"):
        multi_statement(rep, rng, tier)
    if prop in ("C03", "C07", "C06", "C02"):
        import mysqlq
        mysqlq.mysql_subcheck(rep, prop, seed, 600 if tier == "quick" else 12000)
    if pre_finish is not None:
        pre_finish(rep, rng, tier)
    if getattr(rep, "proof_broken", None) and not rep.violations:
        rep.violation("proof obligation no longer checks: " + rep.proof_broken,
                      {"theorem_file": "coq/theories/Props/%s.v" % prop, "detail": info}, no_input=True)
    return rep.finish("proof", ob, dis, checker_cmd(prop), rule=rule, assumptions=assumptions)
