"""Generic runner for the query-level properties: generate schemas + single-statement
query files, run them through the real compiler (harness op `compile`), evaluate
a Gallina judge `judge e raw src impl : list N = [wf; known; holds; diff]` on
the parser's AST and on what sqlc produced."""
import json
import random
from common import *
from qcommon import *

DIFF_BITS = {1: "name/cmd", 2: "sql", 4: "comments", 8: "params", 16: "columns", 32: "outcome"}


def diff_str(d):
    return "+".join(v for k, v in DIFF_BITS.items() if d & k) or "none"


def run_query_property(prop, judge, imports, known_map, rule, assumptions, tier, seed, n_quick=1200, n_thorough=30000,
                       gen=None, engine="postgresql", extra=None, corr_name="compile", what="the property fails", extra_args=None,
                       classify=None, with_generate=False, second=None, chunk_hook=None, positional=False, pre_finish=None):
    """known_map: class number -> known-finding class name; gen(rng) -> case dict"""
    rep = Report(prop, tier, seed)
    ok, info = prep(prop)
    ob, dis = proof_gate(rep, prop, ok, info)
    rng = random.Random(seed)
    n = n_quick if tier == "quick" else n_thorough
    header = HEADER + imports + "\n"
    cases = []
    cpath = os.path.join(VERIF, "corpus", prop + ".json")
    if os.path.exists(cpath):
        cases += json.load(open(cpath))
    gen = gen or gen_case
    cases += [gen(rng) for _ in range(n)]
    for lo in range(0, len(cases), 3000):
        chunk = cases[lo:lo + 3000]
        res = run_harness(compile_jobs(chunk, engine=engine, positional=positional))
        gens = [None] * len(chunk)
        if with_generate:
            cfg = json.dumps({"version": "1", "packages": [{"path": "db", "engine": engine, "schema": "schema.sql",
                              "queries": "query.sql", "emit_db_tags": True}]})
            gens = run_harness([{"op": "generate", "summary": True, "nofiles": True,
                                 "files": {"sqlc.json": cfg, "schema.sql": c["schema"], "query.sql": c["queries"]}} for c in chunk])
        exprs, idx = [], []
        for i, (c, r) in enumerate(zip(chunk, res)):
            if "panic" in r and "ast" not in r:
                rep.count("panic-without-ast")
                rep.violation("Go panic in the compiler: " + r["panic"][:200], {"schema": c["schema"], "queries": c["queries"]})
                continue
            if r.get("stage") == "schema" or "ast" not in r or len(r["ast"]) != 1:
                rep.count("skipped:schema-or-syntax")
                continue
            impl = impl_outcome_coq(r)
            if impl is None:
                rep.count("skipped:multi")
                continue
            if with_generate:
                r = dict(r)
                r["_gen"] = gens[i]
                res[i] = r
            xa = " ".join(extra_args(c, r)) if extra_args else ""
            exprs.append("%s %s %s %s %s %s" % (judge, env_coq(r, engine), node_coq(r["ast"][0]), coqstr(c["queries"]), xa, impl))
            idx.append(i)
        verdicts = coq_eval(header, exprs, tag=prop.lower())
        if chunk_hook is not None:
            chunk_hook(rep, chunk, res, dict(zip(idx, verdicts)))
        if second is not None:
            mk, handle = second
            ex2, ix2 = [], []
            for i in idx:
                e2 = mk(chunk[i], res[i], env_coq(res[i], engine))
                if e2 is not None:
                    ex2.append(e2)
                    ix2.append(i)
            for i, v2 in zip(ix2, coq_eval(header, ex2, tag=prop.lower() + "go")):
                c, r = chunk[i], res[i]
                handle(rep, c, r, v2, {"schema": c["schema"], "queries": c["queries"],
                                      "impl": {k: r.get(k) for k in ("ok", "errs", "queries")},
                                      "go": (r.get("_gen") or {}).get("summary", {}).get("db/query.sql.go", {}).get("methods")})
        for i, v in zip(idx, verdicts):
            c, r = chunk[i], res[i]
            wf, known, holds, diff = v
            accepted = bool(r.get("ok"))
            rep.case((c["schema"], c["queries"]), nontrivial=True,
                     sample={"schema": c["schema"], "query": c["queries"], "accepted": accepted} if (lo + i) % 331 == 0 else None)
            rep.count("kind:" + c.get("kind", "?"))
            rep.count("style:" + c.get("style", "?"))
            rep.count("accepted" if accepted else ("panic" if "panic" in r else "rejected"))
            if known:
                rep.count("known-class:%d" % known)
            replay = {"schema": c["schema"], "queries": c["queries"], "impl": {k: r.get(k) for k in ("ok", "errs", "queries", "panic")}}
            blind = bool(wf & 2)
            if wf & 4:
                rep.count("not-judged-by-spec")
            wf = wf & 1
            if blind:
                rep.count("model-blind:cte-alias-shared")
            if not wf:
                rep.violation("the parser's AST violates the walk order table (wf_order) — the tie to walk.go is broken", replay, no_input=True)
                continue
            reparse = (not accepted) and any("edited query syntax is invalid" in e.get("msg", "") for e in r.get("errs", []))
            if extra is not None:
                extra(rep, c, r, v, replay)
            if not holds:
                klass = classify(known, c, r) if classify else known_map.get(known)
                rep.violation("%s (class %s)" % (what, klass if klass else known), replay, klass=klass)
            elif diff and not blind and not (reparse and diff == 32):
                rep.violation("correspondence corr:%s:%s broken: model and sqlc differ in %s; the property holds on this input"
                              % (prop, corr_name, diff_str(diff)), replay, no_input=True)
            if reparse:
                rep.count("reparse-rejected")
    if engine == "postgresql" and prop in ("C02", "C05", "C06", "C07", "C10"):
        import c08
        c08.history_subcheck(rep, prop, seed, 2500 if tier == "quick" else 20000)
    if prop in ("C03", "C07"):
        import mysqlq
        mysqlq.mysql_subcheck(rep, prop, seed, 600 if tier == "quick" else 12000)
    if pre_finish is not None:
        pre_finish(rep, rng, tier)
    if getattr(rep, "proof_broken", None) and not rep.violations:
        rep.violation("proof obligation no longer checks: " + rep.proof_broken,
                      {"theorem_file": "coq/theories/Props/%s.v" % prop, "detail": info}, no_input=True)
    return rep.finish("proof", ob, dis, checker_cmd(prop), rule=rule, assumptions=assumptions)
