"""C13 — Output is deterministic and independent of declaration order."""
import json
import random
from common import *
from qcommon import Schema, QGen

PROP = "C13"


def make_input(rng):
    """independent declarations (tables without references to each other, enums) and several queries"""
    names = rng.sample(["authors", "books", "t", "u", "orders", "work_flow", "workflow", "items", "venue"], rng.randint(2, 4))
    if rng.random() < 0.25:
        names = list(dict.fromkeys(["work_flow", "workflow"] + names))[:4]
    decls = []
    for i in range(rng.randint(0, 2)):
        decls.append("CREATE TYPE e%d AS ENUM (%s);" % (i, ", ".join("'%s'" % l for l in rng.sample(["a", "b", "c"], 2))))
    if rng.random() < 0.3:
        # two independent enums whose constants get the same Go identifier (Event + type_click, EventType + click):
        # whatever sqlc makes of the collision must not depend on which type is declared first
        decls.append("CREATE TYPE event AS ENUM ('type_click', 'view');")
        decls.append("CREATE TYPE event_type AS ENUM ('click', 'scroll');")
    coltypes = ["int", "text", "uuid", "timestamptz", "text[]", "json", "int NOT NULL", "text NOT NULL"]
    if rng.random() < 0.4:
        # a composite type (and the enums above) used by several tables with differing nullability: the Go type of a column
        # must depend on that column alone, not on which table was declared (or generated) first
        decls.append("CREATE TYPE addr AS (street text, city text);")
        coltypes += ["addr", "addr NOT NULL", "addr", "addr NOT NULL"]
    for d_ in list(decls):
        if d_.startswith("CREATE TYPE e"):
            coltypes += [d_.split()[2], d_.split()[2] + " NOT NULL"]
    tables = {}
    for t in names:
        cols = ["id"] + rng.sample(["name", "bio", "n", "tags", "created_at"], rng.randint(1, 3))
        tables[t] = cols
        decls.append("CREATE TABLE %s (%s);" % (t, ", ".join("%s %s" % (c, rng.choice(coltypes)) for c in cols)))
    queries = []
    for i, t in enumerate(rng.sample(names, len(names))):
        cols = tables[t]
        kind = rng.choice(["get", "list", "del", "ins", "cte", "alias"])
        if kind == "cte":
            # a CTE named like the table it reads, exposing fewer columns: whatever a query's WITH clause defines must not
            # be visible to the other queries of the run, in any order
            queries.append("-- name: Cte%s%d :many\nWITH %s AS (SELECT id FROM %s WHERE id > 0) SELECT * FROM %s;" % (t.title().replace("_", ""), i, t, t, t))
            if rng.random() < 0.7:
                queries.append("-- name: All%s%d :many\nSELECT * FROM %s;" % (t.title().replace("_", ""), i, t))
        elif kind == "alias":
            queries.append("-- name: Ali%s%d :many\nSELECT x.* FROM %s x WHERE x.%s = $1;" % (t.title().replace("_", ""), i, t, cols[-1]))
        elif kind == "get" and rng.random() < 0.4:
            queries.append("-- name: Get%s%d :one\nSELECT *, 'café ☃' AS note FROM %s WHERE id = $1;" % (t.title().replace("_", ""), i, t))
        elif kind == "get":
            queries.append("-- name: Get%s%d :one\nSELECT * FROM %s WHERE id = $1;" % (t.title().replace("_", ""), i, t))
        elif kind == "list":
            queries.append("-- name: List%s%d :many\nSELECT %s FROM %s WHERE %s = $1;" % (t.title().replace("_", ""), i, ", ".join(cols[:2]), t, cols[-1]))
        elif kind == "del":
            queries.append("-- name: Del%s%d :exec\nDELETE FROM %s WHERE id = $1;" % (t.title().replace("_", ""), i, t))
        else:
            queries.append("-- name: Ins%s%d :one\nINSERT INTO %s (%s) VALUES (%s) RETURNING *;" % (t.title().replace("_", ""), i, t, ", ".join(cols), ", ".join("$%d" % (k + 1) for k in range(len(cols)))))
    if rng.random() < 0.3:
        # one function name in two schemas with different result types, called by two queries: what each call resolves
        # to must not depend on which of the queries is compiled first (or in which file it stands)
        t0 = names[0]
        decls += ["CREATE SCHEMA metric;", "CREATE SCHEMA imperial;",
                  "CREATE FUNCTION metric.height_of(int) RETURNS int AS $$ SELECT 1 $$ LANGUAGE sql;",
                  "CREATE FUNCTION imperial.height_of(int) RETURNS text AS $$ SELECT '1' $$ LANGUAGE sql;",
                  "CREATE FUNCTION height_of(int) RETURNS boolean AS $$ SELECT true $$ LANGUAGE sql;"]
        for sc_ in rng.sample(["metric.", "imperial.", ""], rng.randint(2, 3)):
            queries.append("-- name: Height%s :many\nSELECT %sheight_of(1) FROM %s;" % (sc_.strip(".").title() or "Plain", sc_, t0))
    if rng.random() < 0.3:
        # a table and its namesake in another schema (other column types) in one statement; the parameter is compared with a
        # column qualified by the bare table name: which table types it must not vary from run to run
        t0 = names[0]
        if "CREATE SCHEMA archive;" not in decls:
            decls.append("CREATE SCHEMA archive;")
        decls.append("CREATE TABLE archive.%s (id text, name int NOT NULL, n uuid);" % t0)
        c0 = rng.choice(["id", tables[t0][1]])
        queries.append("-- name: Live%s :many\nSELECT %s.id FROM %s WHERE %s.%s > $1 AND NOT EXISTS (SELECT 1 FROM archive.%s WHERE archive.%s.id IS NULL);"
                       % (t0.title().replace("_", ""), t0, t0, t0, c0, t0, t0))
    flags = {f: True for f in rng.sample(["emit_interface", "emit_json_tags", "emit_db_tags", "emit_prepared_queries"], rng.randint(0, 3))}
    ov = []
    if rng.random() < 0.5:
        ov = [{"go_type": "github.com/a/pkg.T", "db_type": "uuid"}, {"go_type": {"import": "github.com/a/pkg", "package": "other", "type": "J"}, "db_type": "json"}]
    return decls, queries, flags, ov


def query_chunks(out):
    """the emitted code of each query (constant, structs, method), keyed by constant name, whatever file it is in"""
    import re
    chunks = {}
    for f, src in (out or {}).items():
        if not f.endswith(".sql.go"):
            continue
        parts = re.split(r"(?m)^const (\w+) = ", src)
        for j in range(1, len(parts) - 1, 2):
            chunks[parts[j]] = parts[j + 1].strip()
    return chunks


def job(decls, qfiles, flags, ov):
    pkg = {"path": "db", "engine": "postgresql", "schema": "schema.sql", "queries": sorted(qfiles)}
    pkg.update(flags)
    cfg = {"version": "1", "packages": [pkg]}
    if ov:
        cfg["overrides"] = ov
    files = {"sqlc.json": json.dumps(cfg), "schema.sql": "\n".join(decls) + "\n"}
    for name, qs in qfiles.items():
        files[name] = "\n\n".join(qs) + "\n"
    return {"op": "generate", "files": files}


def run(tier, seed):
    rep = Report(PROP, tier, seed)
    ok, info = prep(PROP)
    ob, dis = proof_gate(rep, PROP, ok, info)
    rng = random.Random(seed)
    n = 400 if tier == "quick" else 4000
    nproc = 3 if tier == "quick" else 6
    jobs, plan = [], []
    for i in range(n):
        decls, queries, flags, ov = make_input(rng)
        base = len(jobs)
        jobs.append(job(decls, {"q.sql": queries}, flags, ov))
        qperm = list(queries); rng.shuffle(qperm)
        jobs.append(job(decls, {"q.sql": qperm}, flags, ov))
        tys = [d for d in decls if d.startswith("CREATE TYPE")]
        schemas = [d for d in decls if d.startswith("CREATE SCHEMA")]                        # schemas first, functions last, as given
        rest = [d for d in decls if not d.startswith(("CREATE TYPE", "CREATE TABLE", "CREATE SCHEMA"))]
        dperm = schemas + rng.sample(tys, len(tys)) + rng.sample([d for d in decls if d.startswith("CREATE TABLE")], len([d for d in decls if d.startswith("CREATE TABLE")])) + rest
        jobs.append(job(dperm, {"q.sql": queries}, flags, ov))
        k = rng.randrange(len(queries))
        moved = {"q.sql": [q for j, q in enumerate(queries) if j != k] or [], "r.sql": [queries[k]]}
        moved = {f: qs for f, qs in moved.items() if qs}
        jobs.append(job(decls, moved, flags, ov))
        plan.append((base, decls, queries, flags, ov, k))
    runs = [run_harness(jobs) for _ in range(nproc)]      # each call = a fresh process = fresh map seeds
    for base, decls, queries, flags, ov, k in plan:
        rep.case((tuple(decls), tuple(queries), json.dumps(flags, sort_keys=True)), nontrivial=True,
                 sample={"schema": decls, "queries": [q.split("\n")[0] for q in queries], "flags": flags} if len(rep.samples) < 3 else None)
        replay = {"schema": decls, "queries": queries, "flags": flags, "overrides": ov}
        r0 = runs[0][base]
        for p in range(1, nproc):
            for off in range(4):
                a, b = runs[0][base + off], runs[p][base + off]
                if (a.get("ok"), a.get("out")) != (b.get("ok"), b.get("out")):
                    rep.violation("the same inputs give different bytes in two processes", dict(replay, variant=off))
        if not r0.get("ok"):
            rep.count("rejected")
            continue
        rq, rd, rm = runs[0][base + 1], runs[0][base + 2], runs[0][base + 3]
        if rq.get("out") != r0["out"]:
            diff = sorted(f for f in r0["out"] if rq.get("out", {}).get(f) != r0["out"][f])
            rep.violation("reordering the queries inside the query file changes the output (%s)" % diff, replay)
        if rd.get("out") != r0["out"]:
            diff = sorted(f for f in r0["out"] if (rd.get("out") or {}).get(f) != r0["out"][f])
            names = " ".join(decls)
            klass = "struct_names_equal_up_to_case" if ("work_flow" in names and "workflow" in names) else None
            rep.violation("reordering independent type / table declarations changes the output (%s)" % diff, replay, klass=None)
        if rm.get("ok"):
            same = [f for f in r0["out"] if not f.endswith(".sql.go")]
            if any(rm["out"].get(f) != r0["out"][f] for f in same):
                rep.violation("moving a query to another file changes files other than the query files", dict(replay, moved=queries[k]))
            if query_chunks(rm["out"]) != query_chunks(r0["out"]):
                a, b = query_chunks(r0["out"]), query_chunks(rm["out"])
                rep.violation("moving a query to another file changes the code emitted for a query (%s)" % sorted(k_ for k_ in set(a) | set(b) if a.get(k_) != b.get(k_)),
                              dict(replay, moved=queries[k]))
            joined = "".join(v for f, v in sorted(rm["out"].items()) if f.endswith(".sql.go"))
            for q in queries:
                nm = q.split()[2]
                if joined.count("func (q *Queries) %s(" % nm) != 1:
                    rep.violation("after moving a query to another file method %s is emitted %d times" % (nm, joined.count("func (q *Queries) %s(" % nm)), replay)
        rep.count("accepted")
    if getattr(rep, "proof_broken", None) and not rep.violations:
        rep.violation("proof obligation no longer checks: " + rep.proof_broken, {"theorem_file": "coq/theories/Props/C13.v", "detail": info}, no_input=True)
    return rep.finish("proof", ob, dis, checker_cmd(PROP),
                      rule="random schemas of independent tables/enums and 2-4 annotated queries, emit options and overrides with aliased import paths; each input generated in %d fresh processes (fresh map seeds), with the queries permuted, with the table declarations permuted, and with one query moved to a second file; byte comparison" % nproc,
                      assumptions=["Go's map iteration order and scheduler are sampled (fresh processes), not modelled"])
