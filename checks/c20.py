"""C20 — Go, Kotlin and Python back-ends agree on every query's interface."""
import ast as pyast
import json
import random
import re
from common import *
from qcommon import Schema, QGen

PROP = "C20"


def norm(name):
    # a parameter the compiler could not name gets each back-end's fallback: Column_n in Go, dollar_n in
    # Python, dollar<n> in Kotlin (where a second unnamed parameter additionally gets a _2 suffix, because
    # the suffix table is keyed by the empty column name): compared by placeholder number only
    m = re.match(r"^(?:column|dollar)_?(\d+)(?:_\d+)?$", name.lower())
    if m:
        return "unnamed" + m.group(1)
    return re.sub(r"[^a-z0-9]", "", name.lower())


def gen_input(rng):
    sch = Schema(rng)
    qs = []
    if rng.random() < 0.12:
        # the same table read by two queries: once plainly, once with a nullable column wrapped in an un-aliased COALESCE
        # (same name, NOT NULL) - every back-end must see the second result column as not null
        t = rng.choice(list(sch.tables))
        cols = sch.tables[t]
        wrapped = [("COALESCE(%s, %s)" % (c_, c_)) if (j_ > 0 and rng.random() < 0.6) else c_ for j_, c_ in enumerate(cols)]
        pair = ["-- name: Plain%d :many\nSELECT %s FROM %s;\n" % (len(qs), ", ".join(cols), t),
                "-- name: Wrapped%d :many\nSELECT %s FROM %s;\n" % (len(qs), ", ".join(wrapped), t)]
        if rng.random() < 0.5:
            pair.reverse()
        qs += pair
    for i in range(rng.randint(1, 4)):
        if rng.random() < 0.4:
            # placeholder-dense shape: 2-7 distinct placeholders over few columns (name collisions),
            # occurrences repeated and out of order, in WHERE / LIMIT / OFFSET
            t = rng.choice(list(sch.tables))
            cols = sch.tables[t]
            k = rng.randint(2, 7)
            occ = list(range(1, k + 1)) + [rng.randint(1, k) for _ in range(rng.randint(0, 3))]
            rng.shuffle(occ)
            lim = []
            if rng.random() < 0.4:
                lim = [" LIMIT $%d" % occ.pop()] + ([" OFFSET $%d" % occ.pop()] if len(occ) > 1 and rng.random() < 0.5 else [])
                if set(range(1, k + 1)) - set(occ) - set(int(x.split("$")[1]) for x in lim):
                    occ += sorted(set(range(1, k + 1)) - set(occ) - set(int(x.split("$")[1]) for x in lim))
            pool = rng.sample(cols, min(len(cols), rng.randint(1, 2)))
            # a placeholder may stand as the argument of a function call (also more than once, in separate calls) or
            # bare: every occurrence is one ? mark / one bind in positional mode, one parameter per number otherwise
            fstyle = rng.random() < 0.35
            def cond(n):
                c = rng.choice(pool)
                f = rng.choice(["lower", "upper", "md5"]) if fstyle and rng.random() < 0.6 else None
                if f is None:
                    return "%s %s $%d" % (c, rng.choice(["=", ">=", "<=", "<>"]), n)
                return rng.choice(["%s(%s) = %s($%d)" % (f, c, f, n), "%s = %s($%d)" % (c, f, n), "%s = %s($%d::text)" % (c, f, n)])
            conds = [cond(n) for n in occ]
            sql = "SELECT %s FROM %s WHERE %s%s" % (rng.choice(["*", ", ".join(cols), cols[0]]), t,
                                                    (" %s " % rng.choice(["AND", "OR"])).join(conds) or "true", "".join(lim))
            kind = "select"
            qs.append("-- name: Query%d %s\n%s;\n" % (i, rng.choice([":one", ":many"]), sql))
            continue
        g = QGen(rng, sch, named="pos")
        sql, kind = g.statement()
        cmd = rng.choice([":one", ":many"]) if kind in ("select", "cte") else rng.choice([":exec", ":execrows", ":many", ":one"])
        qs.append("-- name: Query%d %s\n%s;\n" % (i, cmd, sql))
    return sch.sql, "\n".join(qs)


def split_marks(sql):
    """placeholder numbers of the source text in text order (outside literals and comments)"""
    out = []
    i, n = 0, len(sql)
    while i < n:
        c = sql[i]
        if c == "'":
            i += 1
            while i < n and not (sql[i] == "'" and sql[i + 1:i + 2] != "'"):
                i += 2 if sql[i] == "'" else 1
            i += 1
        elif c == '"':
            i = sql.find('"', i + 1) + 1 or n
        elif sql.startswith("--", i):
            i = sql.find("\n", i) + 1 or n
        elif sql.startswith("/*", i):
            i = sql.find("*/", i) + 2 or n
        elif c == "$" and i + 1 < n and sql[i + 1].isdigit():
            j = i + 1
            while j < n and sql[j].isdigit():
                j += 1
            out.append(int(sql[i + 1:j]))
            i = j
        else:
            i += 1
    return out


def kotlin_facts(src, iface):
    facts = {}
    consts = dict(re.findall(r'const val (\w+) = """(.*?)"""', src, re.S))
    for m in re.finditer(r"override fun (\w+)\((.*?)\)(?::\s*([^{]+?))?\s*\{(.*?)\n  \}\n", src, re.S):
        name, params, ret, body = m.group(1), m.group(2), (m.group(3) or "").strip(), m.group(4)
        ps = []
        for p in [x.strip() for x in params.replace("\n", " ").split(",") if x.strip()]:
            pn, pt = [x.strip() for x in p.split(":", 1)]
            ps.append((pn, pt))
        binds = [(int(k), v) for k, v in re.findall(r"stmt\.set[\w.]+\((\d+),\s*(?:conn\.createArrayOf\(\"[^\"]*\",\s*)?(?:Timestamp\.from\()?(\w+)", body)]
        facts[norm(name)] = {"params": ps, "binds": binds, "sql": consts.get(name, ""), "ret": ret}
    classes = {}
    for m in re.finditer(r"data class (\w+) \((.*?)\n\)", src + "\n" + iface, re.S):
        classes[m.group(1)] = [tuple(x.strip() for x in f.strip().replace("val ", "").split(":", 1)) for f in m.group(2).split(",\n") if ":" in f]
    return facts, classes


def python_facts(src):
    facts, classes, consts = {}, {}, {}
    tree = pyast.parse(src)
    for node in tree.body:
        if isinstance(node, pyast.Assign) and isinstance(node.value, pyast.Constant) and isinstance(node.value.value, str):
            consts[node.targets[0].id] = node.value.value
        if isinstance(node, pyast.ClassDef):
            classes[node.name] = [(s.target.id, pyast.unparse(s.annotation)) for s in node.body if isinstance(s, pyast.AnnAssign)]
        if isinstance(node, pyast.FunctionDef) and not any(isinstance(d, pyast.Name) and d.id == "overload" for d in node.decorator_list):
            args = [(a.arg, pyast.unparse(a.annotation) if a.annotation else "") for a in node.args.args][1:]
            call = None
            for sub in pyast.walk(node):
                if isinstance(sub, pyast.Call) and isinstance(sub.func, pyast.Attribute) and sub.func.attr.startswith("execute"):
                    call = sub
            cargs = [pyast.unparse(a) for a in call.args] if call else []
            facts[norm(node.name)] = {"params": args, "call": cargs, "ret": pyast.unparse(node.returns) if node.returns else ""}
    return facts, classes, consts


GO_NOTNULL = {"string", "int16", "int32", "int64", "float32", "float64", "bool", "time.Time"}


def nullable_go(t):
    """True / False when the Go type tells, None when Go uses one type for both (uuid.UUID, enums, json.RawMessage, slices ...)"""
    if t.startswith("sql.Null") or t.startswith("*"):
        return True
    if t in GO_NOTNULL:
        return False
    return None


def null_agree(g, k, p):
    return k == p and (g is None or g == k)


KNOWN = {1: "param_nested_in_function_dropped", 2: "param_twice_in_one_call_duplicated", 3: "param_without_context_dropped"}


def gen_pos_case(rng):
    c = None
    sch = Schema(rng)
    if rng.random() < 0.12:
        # the same placeholder in two or three places, at least one of them a function-call argument
        t = rng.choice(list(sch.tables))
        cols = sch.tables[t]
        k = rng.randint(1, 3)
        occ = list(range(1, k + 1)) + [rng.randint(1, k) for _ in range(rng.randint(1, 2))]
        rng.shuffle(occ)
        def cond(n):
            c_, f = rng.choice(cols), rng.choice(["lower", "upper", "md5"])
            return rng.choice(["%s(%s) = %s($%d)" % (f, c_, f, n), "%s = %s($%d)" % (c_, f, n), "%s = $%d" % (c_, n), "%s = %s($%d::text)" % (c_, f, n)])
        sql = "SELECT %s FROM %s WHERE %s" % (cols[0], t, (" %s " % rng.choice(["AND", "OR"])).join(cond(n) for n in occ))
        return {"schema": sch.sql, "queries": "-- name: Q1 %s\n%s;\n" % (rng.choice([":one", ":many"]), sql), "kind": "select", "style": "pos+func-repeat"}
    g = QGen(rng, sch, named="pos" if rng.random() < 0.9 else None)
    sql, kind = g.statement()
    cmd = rng.choice([":one", ":many"]) if kind in ("select", "cte") else rng.choice([":exec", ":execrows", ":many", ":one"])
    return {"schema": sch.sql, "queries": "-- name: Q1 %s\n%s;\n" % (cmd, sql), "kind": kind, "style": g.style}


def three_targets(rep, rng, tier):
    n = 150 if tier == "quick" else 3000
    inputs = [gen_input(rng) for _ in range(n)]
    cfg = json.dumps({"version": "2", "sql": [{"engine": "postgresql", "schema": "schema.sql", "queries": "query.sql",
                                                "gen": {"go": {"package": "db", "out": "go"}, "kotlin": {"package": "com.x", "out": "kt"},
                                                        "python": {"package": "db", "out": "py"}}}]})
    res = run_harness([{"op": "generate", "experimental": True, "summary": True, "files": {"sqlc.json": cfg, "schema.sql": s, "query.sql": q}} for s, q in inputs])
    cpos = run_harness([{"op": "compile", "engine": "postgresql", "schema": s, "queries": q, "positional": True} for s, q in inputs])
    cnum = run_harness([{"op": "compile", "engine": "postgresql", "schema": s, "queries": q, "positional": False} for s, q in inputs])
    name_exprs, name_ctx = [], []
    for (schema, queries), r, rp, rn in zip(inputs, res, cpos, cnum):
        rep.case((schema, queries), nontrivial=True, sample={"queries": queries, "ok": r.get("ok")} if len(rep.samples) < 3 else None)
        replay = {"schema": schema, "queries": queries}
        if "panic" in r:
            rep.violation("sqlc panics with three targets: " + r["panic"][:100], replay)
            continue
        if not r.get("ok"):
            rep.count("rejected")
            continue
        rep.count("accepted")
        out = r["out"]
        gosum = r["summary"].get("go/query.sql.go", {})
        gstructs = {st["name"]: st for f in ("go/models.go", "go/query.sql.go") for st in r["summary"].get(f, {}).get("structs", [])}
        gnames = [st["name"] for f in ("go/models.go", "go/query.sql.go") for st in r["summary"].get(f, {}).get("structs", [])]
        # two tables whose names collapse to one struct / class name (orders, "order"): the package does not even
        # compile (C01 duplicate_top_level_identifier) and "the" struct a method returns is ambiguous
        ambiguous = {n for n in gnames if gnames.count(n) > 1}
        # Python must at least be syntactically valid
        try:
            compile(out["py/query.py"], "query.py", "exec")
            pfacts, pclasses, pconsts = python_facts(out["py/query.py"])
            pyast.parse(out["py/models.py"])
        except SyntaxError as e:
            src = out["py/query.py"]
            dup = re.search(r"def \w+\(conn[^)]*\b(\w+): [^,)]*,[^)]*\b\1: ", src)
            rep.violation("the emitted Python is not syntactically valid: %s" % e, replay, klass=None)
            continue
        kfacts, kclasses = kotlin_facts(out["kt/QueriesImpl.kt"], out["kt/Models.kt"])
        src_stmts = dict((m.group(1), m.group(2)) for m in re.finditer(r"-- name: (\w+) :\w+\n(.*?);\n", queries, re.S))
        for m in gosum.get("methods", []):
            if m["recv"] != "Queries":
                continue
            key = norm(m["name"])
            rep.count("queries")
            gsql = next((c["value"] for c in gosum.get("consts", []) if c["value"].startswith("-- name: %s " % m["name"])), "")
            gbody = gsql.split("\n", 1)[1] if "\n" in gsql else ""
            # --- parameters of the Go method: (number order) name, nullable, array
            gp = m["params"][1:]
            if len(gp) == 1 and gp[0]["type"] in gstructs and gp[0]["name"] == "arg":
                gparams = [(f["name"], f["type"]) for f in gstructs[gp[0]["type"]]["fields"]]
            else:
                gparams = [(p["name"], p["type"]) for p in gp]
            k, p = kfacts.get(key), pfacts.get(key)
            if k is None or p is None:
                rep.violation("query %s is missing from the Kotlin or Python output" % m["name"], replay)
                continue
            # naming models (Model/KtPyGen.v) against the emitted Kotlin signature / binds and Python arguments
            qp = next((q for q in (rp.get("queries") or []) if q["name"] == m["name"]), None) if rp.get("ok") else None
            qn = next((q for q in (rn.get("queries") or []) if q["name"] == m["name"]), None) if rn.get("ok") else None
            pcols = lambda q: coqlist(["((%d)%%Z, %s)" % (x["number"], coqstr((x["column"] or {}).get("name", ""))) for x in q["params"]])
            if qp is not None and not any("." in t for _, t in k["params"] if False):
                name_exprs.append("kt_check %s %s %s" % (pcols(qp), coqlist([coqstr(a) for a, _ in k["params"]]),
                                                         coqlist([coqstr(v) for _, v in sorted(k["binds"])])))
                name_ctx.append(("kotlin", m["name"], schema, queries))
            if qn is not None and len(qn["params"]) <= 4 and not (len(p["params"]) == 1 and p["params"][0][0] == "arg" and p["params"][0][1] in pclasses):
                name_exprs.append("py_check %s %s" % (pcols(qn), coqlist([coqstr(a) for a, _ in p["params"]])))
                name_ctx.append(("python", m["name"], schema, queries))
            marks = split_marks(src_stmts.get(m["name"], ""))
            distinct = sorted(set(marks))
            # (1) embedded SQL equal up to placeholder syntax
            ksql = k["sql"].split("\n", 1)[1] if "\n" in k["sql"] else ""
            psql = next((v for kk, v in pconsts.items() if norm(kk) == key), "")
            pbody = psql.split("\n", 1)[1] if "\n" in psql else ""
            if pbody.strip() != gbody.strip():
                rep.violation("Go and Python embed different SQL for %s" % m["name"], dict(replay, go=gbody, python=pbody))
            if re.sub(r"\$\d+", "?", gbody).strip() != ksql.strip():
                rep.violation("Kotlin's SQL for %s is not the Go SQL with ? for each $n" % m["name"], dict(replay, go=gbody, kotlin=ksql),
                              klass="dollar_number_inside_literal_rewritten" if "'" in gbody else None)
            # (2) one parameter per distinct placeholder, same names, in all three
            if len(gparams) != len(distinct):
                rep.count("go-params-differ-from-placeholders(C03)")
                continue
            gset = [norm(a) for a, _ in gparams]
            kset = [norm(a) for a, _ in k["params"]]
            if len(p["params"]) == 1 and p["params"][0][0] == "arg" and p["params"][0][1] in pclasses:
                p["params"] = pclasses[p["params"][0][1]]
            pset = [norm(a) for a, _ in p["params"]]
            if sorted(gset) != sorted(kset) or sorted(gset) != sorted(pset):
                klass = None
                if len(set(gset)) != len(gset) or len(set(pset)) != len(p["params"]):
                    klass = None
                rep.violation("the three back-ends expose different parameters for %s: go=%s kotlin=%s python=%s" % (m["name"], gset, kset, pset), replay, klass=klass)
                continue
            # nullability / array-ness of parameters
            for (gn, gt), i in zip(gparams, range(len(gparams))):
                kn = next(t for a, t in k["params"] if norm(a) == norm(gn))
                pn = next(t for a, t in p["params"] if norm(a) == norm(gn))
                garr, karr, parr = gt.startswith("[]") and gt != "[]byte", "List<" in kn, "List[" in pn
                gnull, knull, pnull = nullable_go(gt), kn.endswith("?"), pn.startswith("Optional[")
                if (garr, karr) != (karr, parr) or garr != karr:
                    rep.violation("array-ness of parameter %s of %s differs: go=%s kotlin=%s python=%s" % (gn, m["name"], gt, kn, pn), replay)
                elif not null_agree(gnull, knull, pnull):
                    klass = "nullable_array_optional_in_python_only" if garr else ("untyped_parameter_nullability" if gt == "interface{}" else None)
                    rep.violation("nullability of parameter %s of %s differs: go=%s kotlin=%s python=%s" % (gn, m["name"], gt, kn, pn), replay, klass=klass)
            # (3) Kotlin binds: the k-th bind passes the parameter the k-th placeholder of the source denotes
            num_to_name = {num: norm(nm) for num, (nm, _) in zip(distinct, gparams)}
            want = [num_to_name[x] for x in marks]
            got = [norm(v) for _, v in sorted(k["binds"])]
            idxs = [i for i, _ in sorted(k["binds"])]
            if idxs != list(range(1, len(marks) + 1)) or len(got) != ksql.count("?") and "'" not in ksql:
                rep.violation("Kotlin bind calls of %s are not numbered 1..%d (one per ? mark)" % (m["name"], len(marks)), dict(replay, binds=k["binds"]))
            elif got != want:
                stmt = src_stmts.get(m["name"], "")
                klass = "kotlin_binds_in_walk_order" if re.search(r"\bLIMIT\b|\bOFFSET\b|\bWITH\b|\bINSERT\b|\(SELECT", stmt, re.I) else None
                rep.violation("Kotlin binds of %s do not follow the placeholders of the statement: want %s got %s" % (m["name"], want, got), dict(replay, kotlin_sql=ksql), klass=klass)
            # (4) results: same columns in the same order with the same nullability / array-ness
            if m["results"] and len(m["results"]) == 2 and m["results"][0]["type"] not in ("int64", "sql.Result"):
                rt = m["results"][0]["type"]
                rt = rt[2:] if rt.startswith("[]") and rt[2:] in gstructs else rt
                gres = [(f["name"], f["type"]) for f in gstructs[rt]["fields"]] if rt in gstructs else [("", rt[2:] if m["results"][0]["type"].startswith("[]") and not rt.startswith("[]") else rt)]
                kret = re.sub(r"^List<(.*)>$", r"\1", k["ret"].rstrip("?"))
                kres = kclasses.get(kret)
                pret = re.sub(r".*\[(?:Optional\[)?([\w.]+)\]?\]$", r"\1", p["ret"]).split(".")[-1]
                pres = pclasses.get(pret)
                if kres is not None and pres is not None and rt in gstructs and rt not in ambiguous:
                    if not (len(gres) == len(kres) == len(pres)):
                        rep.violation("result of %s has %d/%d/%d columns in Go/Kotlin/Python" % (m["name"], len(gres), len(kres), len(pres)), replay,
                                      klass=None)
                    else:
                        for (gn, gt), (kn, kt), (pn, pt) in zip(gres, kres, pres):
                            garr, karr, parr = gt.startswith("[]") and gt != "[]byte", "List<" in kt, "List[" in pt
                            if not (garr == karr == parr):
                                rep.violation("array-ness of result column %s of %s differs: %s / %s / %s" % (gn, m["name"], gt, kt, pt), replay)
                            elif not null_agree(nullable_go(gt), kt.endswith("?"), pt.startswith("Optional[")):
                                klass = "nullable_array_optional_in_python_only" if garr else ("untyped_column_nullability" if gt == "interface{}" else None)
                                rep.violation("nullability of result column %s of %s differs: %s / %s / %s" % (gn, m["name"], gt, kt, pt), replay, klass=klass)
    from qcommon import HEADER
    verdicts = coq_eval(HEADER + "From Verif Require Import Judge.J20.\n", name_exprs, tag="c20names")
    for (lang, qname, schema, queries), v in zip(name_ctx, verdicts):
        rep.count("naming-model-checked:" + lang)
        if 0 in v:
            what = "signature" if v[0] == 0 else "bind sequence"
            rep.violation("correspondence corr:C20:%s-names broken: the %s of %s differs from the naming model (Model/KtPyGen.v)" % (lang, what if lang == "kotlin" else "argument list", qname),
                          {"schema": schema, "queries": queries}, no_input=True)


def run(tier, seed):
    from cq import run_query_property
    return run_query_property(
        PROP, "judge_c20", "From Verif Require Import Judge.J20.", KNOWN,
        rule="(a) single annotated statements compiled in positional (JDBC) mode: exact correspondence of the compiled query with Model/Compile.v parse_query in positional mode, and per case: the k-th parameter is the k-th $n of the source statement in text order (lexer Spec/Placeholders.v), one ? per placeholder; (b) random schemas and 1-4 annotated statements under one three-target configuration (Go, Kotlin, Python): per query the embedded SQL, the parameter list (names modulo casing, nullability, array-ness), the result columns and Kotlin's bind calls against the placeholders of the source statement; Python compiled with compile()",
        assumptions=["Kotlin is read with regular expressions over the emitted text (no Kotlin parser in the sandbox)",
                     "Python syntactic validity is decided by Python's own compiler (compile(), which also rejects duplicate argument names)",
                     "a parameter the compiler could not name is called Column_n by Go and dollar_n by Kotlin/Python: treated as the same name",
                     "Go nullability is compared only where Go has distinct nullable / non-null types (C09)"],
        tier=tier, seed=seed, what="positional parameter list and placeholders of the source statement disagree",
        gen=gen_pos_case, positional=True, pre_finish=three_targets, n_quick=600, n_thorough=12000)
