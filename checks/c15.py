"""C15 — Type overrides and renames apply exactly where specified."""
import json
import random
import re
from common import *
from qcommon import catalog_coq

PROP = "C15"
BUILTIN_GO_TYPES = ["string", "int", "int16", "int32", "int64", "float32", "float64", "bool", "byte", "error", "interface{}", "uint", "uint8", "uint16", "uint32", "uint64", "rune", "any", ""]
HEADER = ("From Verif Require Import Model.GoTypes Judge.J15.\n"
          "Open Scope string_scope. Open Scope list_scope.\n")

SCHEMA = """CREATE SCHEMA s1;
CREATE TABLE accounts (id uuid PRIMARY KEY, name text NOT NULL, note text, tags text[], age int);
CREATE TYPE s1.mood AS ENUM ('ok', 'sad');
CREATE TYPE mood AS ENUM ('fine');
CREATE TABLE s1.accounts (id uuid PRIMARY KEY, name text NOT NULL, note text, mood s1.mood, pmood mood NOT NULL);
CREATE TABLE orders (id uuid PRIMARY KEY, account_id uuid NOT NULL, name text, total int NOT NULL);
"""
QUERIES = """-- name: GetAccount :one
SELECT id, name, note FROM accounts WHERE id = $1;

-- name: ListNames :many
SELECT a.name, o.name, o.total FROM accounts a JOIN orders o ON o.account_id = a.id WHERE a.age > $1;

-- name: Archive :many
SELECT id, name FROM s1.accounts WHERE name = $1;

-- name: InsertOrder :one
INSERT INTO orders (id, account_id, name, total) VALUES ($1, $2, $3, $4) RETURNING *;

-- name: Rename :exec
UPDATE accounts SET name = $1, note = $2 WHERE id = $3;

-- name: Tagged :many
SELECT id, tags FROM accounts WHERE note = $1;

-- name: Aliased :many
SELECT id AS ident, name AS label FROM accounts;

-- name: InsertArchive :exec
INSERT INTO s1.accounts (id, name, note) VALUES ($1, $2, $3);

-- name: RenameArchive :exec
UPDATE s1.accounts SET name = $1, note = $2 WHERE id = $3;

-- name: Merge :exec
UPDATE accounts SET age = (SELECT max(total) FROM orders), name = $1 WHERE accounts.id = $2;

-- name: Upsert :exec
INSERT INTO accounts (id, name) SELECT account_id, name FROM orders ON CONFLICT (id) DO UPDATE SET name = $1;

-- name: Derived :many
SELECT f.id, f.note FROM (SELECT id, note, age FROM accounts) AS f WHERE f.age > 3;

-- name: Shadow :many
SELECT accounts.id, accounts.name FROM (SELECT id, name FROM orders) AS accounts;
"""

# what each result column / parameter of the fixed queries really is: (schema, table, column); None = not a plain column
A, S, O = ("", "accounts"), ("s1", "accounts"), ("", "orders")
TRUTH = {
    ("result", "GetAccount"): [A + ("id",), A + ("name",), A + ("note",)], ("param", "GetAccount"): [A + ("id",)],
    ("result", "ListNames"): [A + ("name",), O + ("name",), O + ("total",)], ("param", "ListNames"): [A + ("age",)],
    ("result", "Archive"): [S + ("id",), S + ("name",)], ("param", "Archive"): [S + ("name",)],
    ("result", "InsertOrder"): [O + ("id",), O + ("account_id",), O + ("name",), O + ("total",)],
    ("param", "InsertOrder"): [O + ("id",), O + ("account_id",), O + ("name",), O + ("total",)],
    ("param", "Rename"): [A + ("name",), A + ("note",), A + ("id",)],
    ("result", "Tagged"): [A + ("id",), A + ("tags",)], ("param", "Tagged"): [A + ("note",)],
    ("result", "Aliased"): [A + ("id",), A + ("name",)],
    ("param", "InsertArchive"): [S + ("id",), S + ("name",), S + ("note",)],
    ("param", "RenameArchive"): [S + ("name",), S + ("note",), S + ("id",)],
    # through a sub-select in FROM: the column is still the base table's column, whatever the sub-select is called
    # an assignment target is a column of the statement's target relation, whatever other relation was mentioned before it
    ("param", "Merge"): [A + ("name",), A + ("id",)],
    ("param", "Upsert"): [A + ("name",)],
    ("result", "Derived"): [A + ("id",), A + ("note",)],
    ("result", "Shadow"): [O + ("id",), O + ("name",)],
}

GO_TYPES = ["github.com/segmentio/ksuid.KSUID", "string", "int64", "github.com/x/y/v2.Thing", "example.com/go-pkg.T",
            {"import": "database/sql", "package": "orm", "type": "NullString"},
            {"import": "example.com/deep/mod", "type": "Val", "pointer": True},
            {"import": "github.com/a/b", "package": "alias", "type": "Name"}, "*github.com/p/q.Ptr"]
COLUMNS = ["accounts.id", "accounts.name", "s1.accounts.name", "public.accounts.note", "orders.name", "orders.total", "accounts.tags", "s1.accounts.id"]
DBTYPES = [("text", False), ("text", True), ("uuid", False), ("pg_catalog.int4", False), ("pg_catalog.int4", True)]


def struct_name(n):
    return "".join("ID" if p == "id" else p[:1].upper() + p[1:] for p in n.split("_"))


def gen_config(rng):
    ovs = []
    for _ in range(rng.randint(1, 3)):
        if rng.random() < 0.6:
            ovs.append({"go_type": rng.choice(GO_TYPES), "column": rng.choice(COLUMNS)})
        else:
            dt, nullable = rng.choice(DBTYPES)
            o = {"go_type": rng.choice(GO_TYPES), "db_type": dt}
            if nullable:
                o["nullable"] = True
            ovs.append(o)
    rename = {}
    if rng.random() < 0.4:
        rename = {rng.choice(["note", "name", "account_id", "total", "s1_mood", "mood", "s1"]): rng.choice(["Memo", "Label", "Owner"])}
    per_package = rng.choice([False, False, False, True, True, "mixed", "mixed"])
    if per_package == "mixed" and rng.random() < 0.6:
        # the same database type overridden globally and in the package with the opposite nullability: both must survive
        dt = rng.choice(["text", "pg_catalog.int4", "uuid"])
        a, b = {"go_type": rng.choice(GO_TYPES), "db_type": dt}, {"go_type": rng.choice(GO_TYPES), "db_type": dt, "nullable": True}
        ovs = [a] + ovs[:1] + [b] if rng.random() < 0.5 else [b] + ovs[:1] + [a]
    return ovs, rename, per_package


def config_text(ovs, rename, per_package):
    pkg = {"path": "db", "engine": "postgresql", "schema": "schema.sql", "queries": "query.sql", "emit_db_tags": True, "emit_exact_table_names": True,
           "emit_interface": True}
    cfg = {"version": "1", "packages": [pkg]}
    if per_package == "mixed" and len(ovs) > 1:
        # Combine: the global overrides first, then the package's own
        k = max(1, len(ovs) // 2)
        cfg["overrides"], pkg["overrides"] = ovs[:k], ovs[k:]
    elif per_package:
        pkg["overrides"] = ovs
    elif ovs:
        cfg["overrides"] = ovs
    if rename:
        cfg["rename"] = rename
    return json.dumps(cfg)


def fields_of(summary, compile_res, rename):
    """[(where, table triple or None, column name, data type, notnull, array, go type)] for every generated field"""
    out = []
    models = {st["name"]: st for st in summary.get("db/models.go", {}).get("structs", [])}
    for sc in compile_res["catalog"]:
        if sc["name"] == "pg_catalog":
            continue
        for t in sc["tables"]:
            nm = t["name"] if sc["name"] == "public" else sc["name"] + "_" + t["name"]
            st = models.get(rename.get(nm, struct_name(nm)))
            if st is None or len(st["fields"]) != len(t["cols"]):
                out.append(("model:" + nm, None, None, None, None, None, None, None, None))
                continue
            for f, c in zip(st["fields"], t["cols"]):
                dt = c["type_name"] if not c["type_schema"] else c["type_schema"] + "." + c["type_name"]
                # buildStructs converts with table.Rel: the name as written in CREATE TABLE
                out.append(("model:%s.%s" % (nm, c["name"]), ("", "" if sc["name"] == "public" else sc["name"], t["name"]), c["name"], dt, c["notnull"], c["array"], f["type"], f["name"], c["name"]))
    qfile = summary.get("db/query.sql.go", {})
    structs = {st["name"]: st for st in qfile.get("structs", [])}
    structs.update(models)
    methods = {m["name"]: m for m in qfile.get("methods", [])}
    for q in compile_res["queries"]:
        m = methods.get(q["name"])
        if m is None:
            continue
        def col_fields(cols, holder_fields, where):
            truth = TRUTH.get((where, q["name"]))
            for k, (f, c) in enumerate(zip(holder_fields, cols)):
                t = c.get("table")
                tr = (t["catalog"], t["schema"], t["name"]) if t else None
                if truth and k < len(truth):
                    # the table the column REALLY belongs to (independent of what the compiler recorded)
                    tr = ("", truth[k][0], truth[k][1])
                true_col = truth[k][2] if truth and k < len(truth) else c["name"]
                out.append(("%s:%s.%d.%s" % (where, q["name"], k, c["name"]), tr, true_col, c["datatype"], c["notnull"], c["array"], f[1], f[0], c["name"]))
        cols = q["columns"]
        if q["cmd"] in (":one", ":many") and cols:
            rt = m["results"][0]["type"]
            if q["cmd"] == ":many":
                rt = rt[2:]
            if len(cols) == 1:
                col_fields(cols, [("", rt)], "result")
            elif rt in structs:
                col_fields(cols, [(f["name"], f["type"]) for f in structs[rt]["fields"]], "result")
        params = [p["column"] for p in q["params"] if p["column"]]
        ps = m["params"][1:]
        if len(params) == 1 and ps:
            col_fields(params, [(ps[0]["name"], ps[0]["type"])], "param")
        elif len(params) > 1 and ps and ps[0]["type"] in structs:
            col_fields(params, [(f["name"], f["type"]) for f in structs[ps[0]["type"]]["fields"]], "param")
    return out


def gov_coq(o):
    return "(mkGov %s %s %s %s %s %s %s %s)" % (coqstr(o["go_type_name"]), coqstr(o["column"]), coqstr(o["column_name"]), coqstr(o["catalog"]),
                                               coqstr(o["schema"]), coqstr(o["rel"]), coqstr(o["db_type"]), coqbool(o["nullable"]))


def run(tier, seed):
    rep = Report(PROP, tier, seed)
    ok, info = prep(PROP)
    ob, dis = proof_gate(rep, PROP, ok, info)
    rng = random.Random(seed)
    n = 200 if tier == "quick" else 2500
    cfgs = [gen_config(rng) for _ in range(n)]
    base_cfg = config_text([], {}, False)
    files = lambda cfg: {"sqlc.json": cfg, "schema.sql": SCHEMA, "query.sql": QUERIES}
    jobs = [{"op": "generate", "summary": True, "files": files(base_cfg)},
            {"op": "compile", "engine": "postgresql", "schema": SCHEMA, "queries": QUERIES, "want_catalog": True}]
    for ovs, rename, pp in cfgs:
        t = config_text(ovs, rename, pp)
        jobs.append({"op": "generate", "summary": True, "files": files(t)})
        jobs.append({"op": "config", "text": t})
    res = run_harness(jobs)
    base, comp = res[0], res[1]
    if not base.get("ok") or not comp.get("ok"):
        rep.violation("the fixed C15 input no longer generates: " + str(base.get("stderr")) + str(comp.get("errs")), {}, no_input=True)
        return rep.finish("proof", ob, dis, checker_cmd(PROP), rule="-")
    base_fields = {f[0]: f for f in fields_of(base["summary"], comp, {})}
    # a rename may hit a generated enum type (mood, s1_mood): "without overrides" then means "with the same renames"
    renames = sorted(set(json.dumps(rn, sort_keys=True) for _, rn, _ in cfgs if rn))
    rres = run_harness([{"op": "generate", "summary": True, "files": files(config_text([], json.loads(r_), False))} for r_ in renames])
    base_by_rename = {"{}": base_fields}
    for r_, g_ in zip(renames, rres):
        if g_.get("ok"):
            base_by_rename[r_] = {f[0]: f for f in fields_of(g_["summary"], comp, json.loads(r_))}
    cat = catalog_coq(comp["catalog"])
    exprs, keys = [], []
    for i, (ovs, rename, pp) in enumerate(cfgs):
        g, pc = res[2 + 2 * i], res[3 + 2 * i]
        rep.case(json.dumps([ovs, rename, pp], sort_keys=True), nontrivial=True,
                 sample={"overrides": ovs, "rename": rename, "per_package": pp, "ok": g.get("ok")} if len(rep.samples) < 4 else None)
        replay = {"overrides": ovs, "rename": rename, "per_package": pp, "schema": SCHEMA, "queries": QUERIES}
        if "err" in pc:
            rep.count("config-rejected")
            if g.get("ok"):
                rep.violation("config.ParseConfig rejects the configuration but generate accepts it", replay)
            continue
        if "panic" in g:
            rep.violation("sqlc panics with overrides: " + g["panic"][:100], replay)
            continue
        if not g.get("ok"):
            rep.count("generate-rejected")
            continue
        parsed = pc["packages"][0]["overrides"]
        # what config.Combine hands the generator: every global override, then every override of the package, none dropped
        # (Props/C16.v C15_C16_combine_local; Model/Config.v combine)
        key = lambda o: (o.get("db_type", ""), o.get("column", ""), bool(o.get("nullable", False)))
        if [(o["db_type"], o["column"], bool(o["nullable"])) for o in parsed] != [key(o) for o in ovs]:
            rep.violation("the overrides config.Combine hands the generator %s are not the global overrides followed by the package's %s"
                          % ([(o["db_type"], o["column"], o["nullable"]) for o in parsed], [key(o) for o in ovs]), replay)
            continue
        govs = coqlist([gov_coq(o) for o in parsed])
        for f in fields_of(g["summary"], comp, rename):
            if f[1] is None and f[2] is None:
                rep.violation("a model struct is missing or has the wrong number of fields under overrides (%s)" % f[0], replay)
                continue
            where, tbl, col, dt, nn, arr, gty, gname, shown = f
            b = base_by_rename.get(json.dumps(rename, sort_keys=True), {}).get(where)
            if b is None:
                continue
            rep.count("field:" + where.split(":")[0])
            tcoq = "None" if tbl is None else "(Some (%s, %s, %s))" % tuple(coqstr(x) for x in tbl)
            exprs.append("judge_field %s %s PostgreSQL %s %s %s %s %s %s %s %s" % (coqlist(["(%s, %s)" % (coqstr(k_), coqstr(v_)) for k_, v_ in sorted(rename.items())]), govs, cat, tcoq, coqstr(col), coqstr(dt), coqbool(nn), coqbool(arr), coqstr(gty), coqstr(b[6])))
            keys.append((replay, where, gty, b[6]))
            # renames: the identifier derived from a renamed database name
            if shown in rename and where.startswith(("model", "result")) and gname and not gname.startswith(rename[shown]):
                if True:
                    rep.violation("rename %s is not applied to field %s (%s)" % (rename, gname, where), replay)
        # every unqualified type a struct field or a method signature mentions is declared in the package (a rename must
        # reach the declaration of a generated type and all its uses alike)
        declared = set(BUILTIN_GO_TYPES)
        for fname, fs in g["summary"].items():
            declared |= set(x["name"] for x in fs.get("structs", [])) | set(x["name"] for x in fs.get("named", [])) | set(x["name"] for x in fs.get("interfaces", []))
        for fname, fs in g["summary"].items():
            mentioned = [f_["type"] for st in fs.get("structs", []) for f_ in st["fields"]]
            mentioned += [t_["type"] for m_ in fs.get("methods", []) for t_ in m_["params"] + m_["results"]]
            for ty in mentioned:
                base = ty.lstrip("*[]").replace("...", "")
                if "." in base or "{" in base or " " in base or base in declared:
                    continue
                rep.violation("%s mentions type %s, which the package does not declare (rename %s)" % (fname, base, rename), replay)
                break
        # imports: every file imports an override's path iff it uses the type
        for fname, fs in g["summary"].items():
            quals = set(fs.get("qualifiers", []))
            imported = [(alias, path) for alias, path in fs.get("imports", [])]
            for o in parsed:
                if o["basic"] or not o["import"]:
                    continue
                q = o["go_type_name"].lstrip("*[]").split(".")[0]
                used = q in quals
                has = any(path == o["import"] and alias == (o["package"] or "") for alias, path in imported)
                if used and not has:
                    rep.violation("%s uses %s but does not import %s" % (fname, o["go_type_name"], o["import"]), replay)
                if has and not used:
                    others = [p for p in parsed if p is not o and p["import"] == o["import"] and p["go_type_name"].lstrip("*[]").split(".")[0] in quals]
                    if not others:
                        rep.violation("%s imports %s without using %s" % (fname, o["import"], o["go_type_name"]), replay,
                                      klass="import_decided_by_type_name_prefix")
    for (replay, where, gty, bty), v in zip(keys, coq_eval(HEADER, exprs, tag="c15")):
        if not v[2]:
            klass = None
            if where.startswith("result:Aliased"):
                klass = "column_override_lost_under_alias"
            rep.violation("override applied where it must not, or not applied where it must: field %s has type %s (without overrides: %s)" % (where, gty, bty),
                          dict(replay, field=where), klass=klass)
        elif v[3]:
            rep.violation("correspondence corr:C15:go_type_ov broken for field %s (%s)" % (where, gty), dict(replay, field=where), no_input=True)
    if getattr(rep, "proof_broken", None) and not rep.violations:
        rep.violation("proof obligation no longer checks: " + rep.proof_broken, {"theorem_file": "coq/theories/Props/C15.v", "detail": info}, no_input=True)
    return rep.finish("proof", ob, dis, checker_cmd(PROP),
                      rule="random override sets (1-3 column / db_type overrides, nullable flag, global or per-package, string / object / pointer / aliased / versioned go_type forms) and renames over a schema with same-named tables and columns in two schemas; every generated field (model, result, parameter) is judged against the column record the compiler attached and against the output without overrides; imports per file against used qualifiers",
                      assumptions=["Override.Parse / GoType.Parse are taken from the implementation (harness op config), not modelled",
                                   "struct <-> table association uses emit_exact_table_names and simple lower-case names"])
