"""C07 — Star expansion lists exactly the catalog's columns, unambiguously."""
from cq import *
from c02 import sql_ast_arg

PROP = "C07"
KNOWN = {1: "derived_table_columns_leak", 2: "update_from_returning_order", 3: "cte_alias_shared", 5: "star_over_unnamed_cte_column", 6: "star_over_qualified_cast_column", 7: "star_over_duplicate_column_names"}


def gen(rng):
    # stars are what this property is about: regenerate until the statement has one (bounded)
    for _ in range(6):
        c = gen_case(rng)
        if "*" in c["queries"].split("\n", 1)[1].replace("count(*)", ""):
            return c
    return c


def extra(rep, c, r, v, replay):
    wf, known, holds, diff = v
    spec_ok = bool(wf & 8)
    has_star = not (wf & 4)
    if has_star and spec_ok and not r.get("ok") and any("edited query syntax is invalid" in e.get("msg", "") for e in r.get("errs", [])):
        klass = KNOWN.get(known)
        rep.violation("a valid statement with a star is rejected: the expanded SQL does not parse (%s)" % r["errs"][0]["msg"][:80], replay, klass=klass)


def star_vs_explicit(rep, cases, results, engine="postgresql"):
    """the same query written with * and with the explicit list (= sqlc's own expansion) must compile to the same API"""
    idx = [i for i, r in enumerate(results) if r.get("ok") and len(r["queries"]) == 1 and "*" in cases[i]["queries"]]
    jobs = []
    for i in idx:
        q = results[i]["queries"][0]
        src = "-- name: %s %s\n%s;\n" % (q["name"], q["cmd"], q["sql"])
        jobs.append({"op": "compile", "engine": engine, "schema": cases[i]["schema"], "queries": src})
    out = run_harness(jobs)
    for i, r2 in zip(idx, out):
        q1 = results[i]["queries"][0]
        rep.count("star-vs-explicit")
        proj = lambda q: ([(c["name"], c["datatype"], c["notnull"], c["array"]) for c in q["columns"]],
                          [(p["number"], p["column"] and (p["column"]["datatype"], p["column"]["notnull"], p["column"]["array"])) for p in q["params"]])
        if not r2.get("ok") or len(r2["queries"]) != 1 or proj(r2["queries"][0]) != proj(q1):
            yield i, r2


def hook(rep, chunk, res, verdicts):
    for i, r2 in star_vs_explicit(rep, chunk, res):
        v = verdicts.get(i)
        if v is None or not (v[0] & 8):
            continue
        rep.violation("the query written with * and with the explicit column list (sqlc's own expansion) generate different APIs",
                      {"schema": chunk[i]["schema"], "star_query": chunk[i]["queries"], "explicit_sql": res[i]["queries"][0]["sql"],
                       "star_api": res[i]["queries"][0]["columns"], "explicit": {k: r2.get(k) for k in ("ok", "errs", "queries")}},
                      klass=KNOWN.get(v[1]))


def run(tier, seed):
    return run_query_property(
        PROP, "judge_c07", "From Verif Require Import Judge.J02.", KNOWN,
        rule="random schemas (shared column names across tables, reserved words as table / column / alias names) and statements with * and t.* in result and RETURNING lists over 1-3 relations, aliases, CTE sources, several stars; the row description (names and source columns, Spec/PgScope.v) of the re-parsed expanded SQL must equal that of the source statement and contain no star",
        assumptions=["Spec/PgScope.pg_describe stands in for the database (no server in the sandbox): 'accepted by a database' = re-parses and resolves without ambiguity"],
        tier=tier, seed=seed, what="the expanded column list does not denote the columns the star stands for",
        extra_args=sql_ast_arg, gen=gen, extra=extra, chunk_hook=hook)
