"""C09 — Every supported database type maps to its documented Go type."""
import json
import random
import re
from common import *

PROP = "C09"
HEADER = ("From Verif Require Import Base.Str Model.Catalog Model.GoTypes Spec.DocTypes Judge.J09.\n"
          "Open Scope string_scope. Open Scope list_scope.\n")
KNOWN = {1: "nullable_int16", 2: "nullable_float32"}

# SQL spelling -> documented class (Spec/DocTypes.v constructor); through the real parsers
PG_SPELLINGS = [
    ("integer", "KInt32"), ("int", "KInt32"), ("int4", "KInt32"), ("pg_catalog.int4", "KInt32"), ("serial", "KInt32"), ("serial4", "KInt32"),
    ("bigint", "KInt64"), ("int8", "KInt64"), ("pg_catalog.int8", "KInt64"), ("bigserial", "KInt64"), ("serial8", "KInt64"),
    ("smallint", "KInt16"), ("int2", "KInt16"), ("smallserial", "KInt16"), ("serial2", "KInt16"),
    ("double precision", "KFloat64"), ("float8", "KFloat64"), ("float", "KFloat64"), ("float(53)", "KFloat64"),
    ("real", "KFloat32"), ("float4", "KFloat32"), ("float(24)", "KFloat32"),
    ("numeric", "KDecimal"), ("numeric(10,2)", "KDecimal"), ("decimal", "KDecimal"), ("decimal(8)", "KDecimal"), ("money", "KDecimal"),
    ("text", "KText"), ("varchar", "KText"), ("varchar(10)", "KText"), ("character varying", "KText"), ("character varying(5)", "KText"),
    ("char(3)", "KText"), ("character(3)", "KText"), ("bpchar", "KText"), ("pg_catalog.varchar", "KText"),
    ("boolean", "KBool"), ("bool", "KBool"), ("pg_catalog.bool", "KBool"),
    ("date", "KTime"), ("time", "KTime"), ("time without time zone", "KTime"), ("timetz", "KTime"), ("time with time zone", "KTime"),
    ("timestamp", "KTime"), ("timestamp without time zone", "KTime"), ("timestamptz", "KTime"), ("timestamp with time zone", "KTime"),
    ("timestamp(3)", "KTime"), ("pg_catalog.timestamptz", "KTime"),
    ("bytea", "KBytes"), ("json", "KJson"), ("jsonb", "KJson"), ("uuid", "KUuid"), ("inet", "KInet"), ("cidr", "KInet"),
    ("macaddr", "KMac"), ("macaddr8", "KMac"),
]
MY_SPELLINGS = [
    ("int", "KInt32"), ("integer", "KInt32"), ("int(11)", "KInt32"), ("smallint", "KInt32"), ("mediumint", "KInt32"), ("year", "KInt32"),
    ("tinyint", "KInt32"), ("tinyint(4)", "KInt32"), ("tinyint(1)", "KBool"), ("bool", "KBool"), ("boolean", "KBool"),
    ("bigint", "KInt64"), ("bigint(20)", "KInt64"),
    ("varchar(10)", "KText"), ("text", "KText"), ("char(3)", "KText"), ("tinytext", "KText"), ("mediumtext", "KText"), ("longtext", "KText"),
    ("blob", "KBytes"), ("binary(4)", "KBytes"), ("varbinary(8)", "KBytes"), ("tinyblob", "KBytes"), ("mediumblob", "KBytes"), ("longblob", "KBytes"),
    ("double", "KFloat64"), ("double precision", "KFloat64"), ("real", "KFloat64"),
    ("decimal(10,2)", "KDecimal"), ("decimal", "KDecimal"), ("dec(5)", "KDecimal"), ("fixed(5)", "KDecimal"), ("numeric(5)", "KDecimal"),
    ("date", "KTime"), ("timestamp", "KTime"), ("datetime", "KTime"), ("time", "KTime"), ("json", "KJson"),
]


def table_names():
    """names listed by the regenerated tables (read back from Gen/TypeTables.v)"""
    src = open(os.path.join(COQDIR, "theories", "Gen", "TypeTables.v")).read()
    out = {}
    for eng, name in (("postgresql", "pg_type_table"), ("mysql", "my_type_table")):
        body = src[src.index("Definition " + name):]
        body = body[:body.index(" ].")]
        names = []
        for m in re.finditer(r"mkTE \[([^\]]*)\]", body):
            names += re.findall(r'"([^"]*)"', m.group(1))
        out[eng] = names
    return out


def cat_coq(types):
    """catalog term for the synthetic catalog the gotypes op builds"""
    schemas = {"public": [], "pg_catalog": []}
    order = ["public", "pg_catalog"]
    for t in types:
        if t["schema"] not in schemas:
            schemas[t["schema"]] = []
            order.append(t["schema"])
        if t["kind"] == "enum":
            schemas[t["schema"]].append('(Enum %s ["a"] "")' % coqstr(t["name"]))
        else:
            schemas[t["schema"]].append('(Composite %s "")' % coqstr(t["name"]))
    return '(mkCat "public" %s)' % coqlist(['(mkSch %s [] %s "")' % (coqstr(s), coqlist(schemas[s])) for s in order])


def run(tier, seed):
    rep = Report(PROP, tier, seed)
    ok, info = prep(PROP)
    ob, dis = proof_gate(rep, PROP, ok, info)
    rng = random.Random(seed)
    names = table_names()

    # (i) tabulation by execution: every listed name, unknown names, catalog types; all cells
    jobs, meta = [], []
    type_sets = [
        [],
        [{"schema": "public", "name": "e1", "kind": "enum"}, {"schema": "s1", "name": "e1", "kind": "enum"}],
        [{"schema": "public", "name": "comp", "kind": "composite"}, {"schema": "public", "name": "e1", "kind": "enum"},
         {"schema": "s1", "name": "e2", "kind": "enum"}],
        [{"schema": "s1", "name": "e1", "kind": "enum"}, {"schema": "public", "name": "comp", "kind": "composite"}],
    ]
    unknown = ["nosuch", "e1", "s1.e1", "public.e1", "e2", "s1.e2", "comp", "public.comp", "pg_catalog.nosuch", "a.b.c.d", "", "INT", "citext", "geometry", "a.b.e1"]
    for eng in ("postgresql", "mysql"):
        for ts in type_sets:
            dts = names[eng] + unknown
            if tier != "quick":
                dts = dts + [n.upper() for n in names[eng][:20]] + [n + " " for n in names[eng][:10]]
            cols = []
            for dt in dts:
                for nn in (True, False):
                    for arr in (False, True):
                        for ln in ((-1, 1, 4) if (eng == "mysql" and dt == "tinyint") else (-1,)):
                            cols.append({"dt": dt, "notnull": nn, "array": arr, "len": ln})
            jobs.append({"op": "gotypes", "engine": eng, "types": ts, "cols": cols})
            meta.append((eng, ts, cols))
    res = run_harness(jobs)
    exprs, keys = [], []
    for (eng, ts, cols), r in zip(meta, res):
        if "model" not in r:
            rep.violation("golang.Generate failed or panicked on a synthetic catalog: %s" % (r.get("err") or r.get("panic")),
                          {"engine": eng, "types": ts})
            continue
        cat = cat_coq(ts)
        e = "PostgreSQL" if eng == "postgresql" else "MySQL"
        for i, c in enumerate(cols):
            tys = {r["model"][i], r["result"][i], r["param"][i]}
            rep.count("cell:" + eng)
            if len(tys) != 1:
                rep.violation("the same type maps differently in model field / result field / parameter",
                              {"engine": eng, "cell": c, "model": r["model"][i], "result": r["result"][i], "param": r["param"][i]})
            exprs.append("judge_cell %s %s %s %s %s %s %s" % (e, cat, coqstr(c["dt"]), coqbool(c["notnull"]), coqbool(c["array"]),
                                                         coqbool(c["len"] == 1), coqstr(r["model"][i])))
            keys.append((eng, ts, c, r["model"][i]))
    verdicts = coq_eval(HEADER, exprs, tag="c09")
    for (eng, ts, c, impl), v in zip(keys, verdicts):
        wf, known, holds, corr = v
        rep.case((eng, json.dumps(ts), json.dumps(c)), nontrivial=True,
                 sample={"engine": eng, "cell": c, "go_type": impl} if len(rep.samples) < 4 else None)
        if not holds:
            rep.violation("type %r (%s, notnull=%s, array=%s, len=%s) maps to %s, not to its documented Go type"
                          % (c["dt"], eng, c["notnull"], c["array"], c["len"], impl),
                          {"engine": eng, "catalog_types": ts, "cell": c, "go_type": impl}, klass=KNOWN.get(known))
        elif not corr:
            rep.violation("correspondence corr:C09:go_type broken (model != implementation) for %r in %s" % (c["dt"], eng),
                          {"engine": eng, "catalog_types": ts, "cell": c, "go_type": impl}, no_input=True)

    # (ii) every spelling through the real parser and generator, three positions
    jobs, meta = [], []
    for eng, spellings in (("postgresql", PG_SPELLINGS), ("mysql", MY_SPELLINGS)):
        for sp, klass in spellings:
            for nn in (True, False):
                for arr in ((False, True) if eng == "postgresql" and not sp.startswith(("serial", "bigserial", "smallserial")) else (False,)):
                    ty = sp + ("[]" if arr else "")
                    schema = "CREATE TABLE t (id %s%s, other %s%s);\n" % (ty, " NOT NULL" if nn else "", ty, " NOT NULL" if nn else "")
                    ph = "$1" if eng == "postgresql" else "?"
                    ph2 = "$2" if eng == "postgresql" else "?"
                    q = "-- name: Q :many\nSELECT id, other FROM t WHERE id = %s AND other = %s;\n" % (ph, ph2)
                    cfg = json.dumps({"version": "1", "packages": [{"path": "db", "engine": eng, "schema": "schema.sql", "queries": "query.sql"}]})
                    jobs.append({"op": "generate", "summary": True, "nofiles": True,
                                 "files": {"sqlc.json": cfg, "schema.sql": schema, "query.sql": q}})
                    meta.append((eng, sp, klass, nn, arr))
    res = run_harness(jobs)
    exprs, keys = [], []
    for (eng, sp, klass, nn, arr), r in zip(meta, res):
        rep.count("spelling:" + eng)
        if "panic" in r or not r.get("ok"):
            rep.violation("sqlc fails on a column of type %r (%s): %s" % (sp, eng, r.get("panic") or r.get("stderr")),
                          {"engine": eng, "spelling": sp, "notnull": nn, "array": arr})
            continue
        s = r["summary"]
        def fields(file, name):
            for st in s.get(file, {}).get("structs", []):
                if st["name"] == name:
                    return [f["type"] for f in st["fields"]]
            return []
        tys = fields("db/models.go", "T") + fields("db/query.sql.go", "QRow") + fields("db/query.sql.go", "QParams")
        if fields("db/query.sql.go", "QRow") == []:
            # the row was the model struct itself (all columns in order): already counted through T
            pass
        nm, nr = len(fields("db/models.go", "T")), len(fields("db/query.sql.go", "QRow"))
        if len(tys) < 4:
            rep.violation("cannot find the model/params structs for spelling %r" % sp, {"engine": eng, "spelling": sp, "summary_keys": list(s)}, no_input=True)
            continue
        exprs.append("judge_spelling %s %s %s %s" % (klass, coqbool(nn), coqbool(arr), coqlist([coqstr(t) for t in tys])))
        keys.append((eng, sp, klass, nn, arr, tys, nm, nr))
    verdicts = coq_eval(HEADER, exprs, tag="c09s")
    for (eng, sp, klass, nn, arr, tys, nm, nr), v in zip(keys, verdicts):
        wf, known, holds, corr = v
        kclass = KNOWN.get(known)
        if not holds and eng == "mysql" and klass == "KBool":
            want, bad = ("bool", "int32") if nn else ("sql.NullBool", "sql.NullInt32")
            if all(t == want for t in tys[:nm]) and all(t == bad for t in tys[nm:]):
                kclass = "mysql_bool_result_int32"
        rep.case((eng, sp, nn, arr), nontrivial=True,
                 sample={"engine": eng, "spelling": sp, "notnull": nn, "array": arr, "go_types": tys} if len(rep.samples) < 6 else None)
        if not holds:
            rep.violation("spelling %r (%s, notnull=%s, array=%s) yields %s in model/result/parameter positions, not the documented type of %s"
                          % (sp, eng, nn, arr, sorted(set(tys)), klass),
                          {"engine": eng, "spelling": sp, "notnull": nn, "array": arr, "go_types": tys}, klass=kclass)

    # (iii) route independence: the Go type depends only on the declared type and nullability the column ENDS UP with,
    # not on the DDL route that led there (direct declaration vs ALTER ... TYPE / ADD COLUMN / SET / DROP NOT NULL /
    # multi-command ALTER).  Metamorphic: every route is compared with the direct declaration, field by field.
    jobs, meta = [], []
    pg_sample = [sp for sp, _ in PG_SPELLINGS][::2] if tier == "quick" else [sp for sp, _ in PG_SPELLINGS]
    for sp in pg_sample:
        if sp.startswith(("serial", "bigserial", "smallserial")):
            continue
        for nn in (True, False):
            n_ = " NOT NULL" if nn else ""
            direct = "CREATE TABLE t (id %s%s, other %s%s);\n" % (sp, n_, sp, n_)
            routes = {
                "alter-type": "CREATE TABLE t (id text%s, other %s%s);\nALTER TABLE t ALTER COLUMN id TYPE %s;\n" % (n_, sp, n_, sp),
                "set-data-type-2": "CREATE TABLE t (id boolean%s, other boolean%s);\nALTER TABLE t ALTER COLUMN id SET DATA TYPE %s, ALTER COLUMN other TYPE %s;\n" % (n_, n_, sp, sp),
                "add-column": "CREATE TABLE t (id %s%s);\nALTER TABLE t ADD COLUMN other %s%s;\n" % (sp, n_, sp, n_),
                "toggle-not-null": ("CREATE TABLE t (id %s, other %s);\nALTER TABLE t ALTER COLUMN id SET NOT NULL, ALTER COLUMN other SET NOT NULL;\n" % (sp, sp)) if nn
                                   else ("CREATE TABLE t (id %s NOT NULL, other %s NOT NULL);\nALTER TABLE t ALTER COLUMN id DROP NOT NULL;\nALTER TABLE t ALTER COLUMN other DROP NOT NULL;\n" % (sp, sp)),
                "drop-around": "CREATE TABLE t (j1 int, id %s%s, j2 text NOT NULL, other %s%s, j3 int);\nALTER TABLE t DROP COLUMN j1, DROP COLUMN j2, DROP COLUMN j3;\n" % (sp, n_, sp, n_),
                "rename": "CREATE TABLE t0 (idx %s%s, other %s%s);\nALTER TABLE t0 RENAME COLUMN idx TO id;\nALTER TABLE t0 RENAME TO t;\n" % (sp, n_, sp, n_),
                "pk-routes": ("CREATE TABLE t (CONSTRAINT t_pkey PRIMARY KEY (id, other), id %s, other %s);\n" % (sp, sp)) if nn
                             else ("CREATE TABLE t (PRIMARY KEY (k), id %s, k int, other %s);\nALTER TABLE t DROP COLUMN k;\n" % (sp, sp)),
                "add-column-pk": ("CREATE TABLE t (id %s NOT NULL);\nALTER TABLE t ADD COLUMN other %s PRIMARY KEY;\n" % (sp, sp)) if nn
                                 else ("CREATE TABLE t (k int);\nALTER TABLE t ADD COLUMN id %s, ADD COLUMN other %s;\nALTER TABLE t DROP COLUMN k;\n" % (sp, sp)),
                "drop-re-add": "CREATE TABLE t (id %s%s, other int);\nALTER TABLE t DROP COLUMN other, ADD COLUMN other %s%s;\n" % (sp, n_, sp, n_),
            }
            q = "-- name: Q :many\nSELECT id, other FROM t WHERE id = $1 AND other = $2;\n"
            cfg = json.dumps({"version": "1", "packages": [{"path": "db", "engine": "postgresql", "schema": "schema.sql", "queries": "query.sql"}]})
            for rname, schema in [("direct", direct)] + sorted(routes.items()):
                jobs.append({"op": "generate", "summary": True, "nofiles": True, "files": {"sqlc.json": cfg, "schema.sql": schema, "query.sql": q}})
                meta.append((sp, nn, rname, schema))
    # ... and MySQL: MODIFY [COLUMN] from another type (into and out of tinyint(1) / bool, whose display width decides the Go
    # type), ADD COLUMN, drop-and-re-add
    my_sample = [sp for sp, _ in MY_SPELLINGS][::2] + ["tinyint(1)", "bool", "boolean", "tinyint(4)", "int"] if tier == "quick" else [sp for sp, _ in MY_SPELLINGS]
    for sp in dict.fromkeys(my_sample):
        for nn in (True, False):
            n_ = " NOT NULL" if nn else ""
            direct = "CREATE TABLE t (id %s%s, other %s%s);\n" % (sp, n_, sp, n_)
            routes = {}
            for k_, frm in enumerate(["int", "tinyint(1)", "text", "tinyint(4)"]):
                if frm != sp:
                    routes["my-modify-from-%d" % k_] = "CREATE TABLE t (id %s, other %s%s);\nALTER TABLE t MODIFY COLUMN id %s%s;\n" % (frm, sp, n_, sp, n_)
            routes["my-modify-both"] = "CREATE TABLE t (id tinyint(1) NOT NULL, other int);\nALTER TABLE t MODIFY id %s%s, MODIFY other %s%s;\n" % (sp, n_, sp, n_)
            routes["my-add-column"] = "CREATE TABLE t (id %s%s);\nALTER TABLE t ADD COLUMN other %s%s;\n" % (sp, n_, sp, n_)
            routes["my-drop-re-add"] = "CREATE TABLE t (id %s%s, other tinyint(1));\nALTER TABLE t DROP COLUMN other;\nALTER TABLE t ADD COLUMN other %s%s;\n" % (sp, n_, sp, n_)
            q = "-- name: Q :many\nSELECT id, other FROM t WHERE id = ? AND other = ?;\n"
            cfg = json.dumps({"version": "1", "packages": [{"path": "db", "engine": "mysql", "schema": "schema.sql", "queries": "query.sql"}]})
            for rname, schema in [("direct", direct)] + sorted(routes.items()):
                jobs.append({"op": "generate", "summary": True, "nofiles": True, "files": {"sqlc.json": cfg, "schema.sql": schema, "query.sql": q}})
                meta.append(("mysql:" + sp, nn, rname, schema))
    res = run_harness(jobs)
    base = {}
    for (sp, nn, rname, schema), r in zip(meta, res):
        rep.count("route:" + rname)
        if "panic" in r or not r.get("ok"):
            rep.violation("sqlc fails on a valid DDL route (%s) to a column of type %r: %s" % (rname, sp, r.get("panic") or r.get("stderr")),
                          {"schema": schema, "spelling": sp, "notnull": nn})
            continue
        view = {}
        for fname in ("db/models.go", "db/query.sql.go"):
            for st in r["summary"].get(fname, {}).get("structs", []):
                view[st["name"]] = sorted((f["name"], f["type"]) for f in st["fields"])
        # a route may leave the columns in another order (MySQL MODIFY re-adds the column at the end): the query then gets a row
        # struct of its own instead of the model struct - with the same fields, which is what is compared
        if view.get("QRow") == view.get("T"):
            view.pop("QRow", None)
        if rname == "direct":
            base[(sp, nn)] = (view, schema)
            continue
        rep.case(("route", sp, nn, rname), nontrivial=True)
        if (sp, nn) in base and view != base[(sp, nn)][0]:
            rep.violation("the Go types of a column declared %r%s depend on the DDL route: declared directly %s, through route %s %s"
                          % (sp, " NOT NULL" if nn else "", base[(sp, nn)][0], rname, view),
                          {"direct_schema": base[(sp, nn)][1], "route_schema": schema, "route": rname, "direct": base[(sp, nn)][0], "via_route": view})
    # (iv) use independence: the Go type of a column depends on ITS type and nullability, not on the other columns of the
    # package that have the same type (user-defined types are resolved by name at every use)
    cfg = json.dumps({"version": "1", "packages": [{"path": "db", "engine": "postgresql", "schema": "schema.sql", "queries": "query.sql"}]})
    uses = [("a", " NOT NULL"), ("b", ""), ("c", "[]"), ("d", "[] NOT NULL")]
    jobs, meta = [], []
    for tyname, decl in (("dims", "CREATE TYPE dims AS (w int, h int);"), ("mood", "CREATE TYPE mood AS ENUM ('ok', 'sad');"), ("text", ""), ("int2", "")):
        orders = [uses, uses[::-1], [uses[1], uses[0], uses[3], uses[2]]]
        for k_, order in enumerate(orders):
            for split in (False, True):
                if split:
                    schema = decl + "\n" + "".join("CREATE TABLE t_%s (%s %s%s);\n" % (c_, c_, tyname, sfx) for c_, sfx in order)
                    q = "".join("-- name: Q%s :many\nSELECT %s FROM t_%s WHERE %s = $1;\n" % (c_, c_, c_, c_) for c_, _ in order)
                else:
                    schema = decl + "\nCREATE TABLE t (zz boolean, %s);\n" % ", ".join("%s %s%s" % (c_, tyname, sfx) for c_, sfx in order)
                    q = "".join("-- name: Q%s :many\nSELECT %s FROM t WHERE %s = $1;\n" % (c_, c_, c_) for c_, _ in order)
                    # the same column as the target of an assignment, in every form an assignment can take
                    q += "".join("-- name: U%s :exec\nUPDATE t SET %s = $1;\n-- name: M%s :exec\nUPDATE t SET (zz, %s) = (DEFAULT, $1);\n"
                                 "-- name: N%s :exec\nUPDATE t SET (%s, zz) = ($1, true);\n-- name: I%s :exec\nINSERT INTO t (zz, %s) VALUES (true, $1);\n" % (c_, c_, c_, c_, c_, c_, c_, c_)
                                 for c_, _ in order)
                jobs.append({"op": "generate", "summary": True, "nofiles": True, "files": {"sqlc.json": cfg, "schema.sql": schema, "query.sql": q}})
                meta.append((tyname, k_, split, schema))
        for c_, sfx in uses:       # each use on its own: the reference
            schema = decl + "\nCREATE TABLE t (%s %s%s);\n" % (c_, tyname, sfx)
            q = "-- name: Q%s :many\nSELECT %s FROM t WHERE %s = $1;\n" % (c_, c_, c_)
            jobs.append({"op": "generate", "summary": True, "nofiles": True, "files": {"sqlc.json": cfg, "schema.sql": schema, "query.sql": q}})
            meta.append((tyname, "alone", c_, schema))

    def use_types(r):
        out = {}
        for st in r["summary"].get("db/models.go", {}).get("structs", []):
            for f in st["fields"]:
                out[("model", f["name"])] = f["type"]
        for m_ in r["summary"].get("db/query.sql.go", {}).get("methods", []):
            if m_["recv"] == "Queries" and len(m_["params"]) == 2:
                if m_["name"][0] in "UMNI":
                    out[("param", "Q" + m_["name"][1:], m_["name"][0])] = m_["params"][1]["type"]      # compared with the parameter of Q<col>
                    continue
                out[("param", m_["name"])] = m_["params"][1]["type"]
                out[("result", m_["name"])] = m_["results"][0]["type"]
        return out
    ref = {}
    results = list(zip(meta, run_harness(jobs)))
    for (tyname, k_, x, schema), r in results:
        if k_ == "alone" and r.get("ok"):
            for key, ty in use_types(r).items():
                ref[(tyname,) + key] = ty
    for (tyname, k_, x, schema), r in results:
        if k_ == "alone":
            continue
        rep.case(("use-independence", tyname, k_, x), nontrivial=True)
        if not r.get("ok"):
            rep.violation("sqlc fails on columns of type %s used with several nullabilities: %s" % (tyname, r.get("stderr") or r.get("panic")), {"schema": schema})
            continue
        bad = [(key, ty, ref.get((tyname,) + key[:2])) for key, ty in use_types(r).items() if (tyname,) + key[:2] in ref and ref[(tyname,) + key[:2]] != ty]
        if bad:
            rep.violation("the Go type of a %s column depends on the other columns of that type in the package: %s (type in the package, type when alone)" % (tyname, bad[:3]),
                          {"schema": schema, "differs": bad})
    import c08
    c08.history_subcheck(rep, PROP, seed, 2500 if tier == "quick" else 20000)
    rep.extra["exhaustive"] = True
    if getattr(rep, "proof_broken", None) and not rep.violations:
        rep.violation("proof obligation no longer checks: " + rep.proof_broken, {"theorem_file": "coq/theories/Props/C09.v", "detail": info}, no_input=True)
    return rep.finish("proof", ob, dis, checker_cmd(PROP),
                      rule="complete finite domain: every name of the regenerated type tables (+ unknown names, enum and composite names in 4 catalog shapes) x {NOT NULL, nullable} x {scalar, array} x {model, result, parameter} x {postgresql, mysql}, tabulated by executing golang.Generate; plus every listed SQL spelling through the real parser; all cells non-trivial and distinct",
                      assumptions=["the translator /verif/translator reads the case arms of postgresType/mysqlType; it refuses (check fails) if the switch leaves the recognised shape",
                                   "Spec/DocTypes.v is the documented mapping (docs/reference/datatypes.md + property statement)"])
