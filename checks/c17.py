"""C17 — Diagnostics name the right file and a line inside the statement."""
from cfile import *

PROP = "C17"
KNOWN = {2: "double_dash_inside_literal_taken_for_comment"}


def run(tier, seed):
    rep = Report(PROP, tier, seed)
    ok, info = prep(PROP)
    ob, dis = proof_gate(rep, PROP, ok, info)
    rng = random.Random(seed)
    n = 700 if tier == "quick" else 20000
    cases = [gen_file(rng, errors=rng.choice([0.3, 0.6, 1.0])) for _ in range(n)]
    for c, r, v in run_files(rep, cases):
        wf, known04, holds04, diff, holds17, k17 = v
        nerr = len(r.get("errs") or [])
        rep.case((c["schema"], c["queries"]), nontrivial=nerr > 0,
                 sample={"queries": c["queries"], "stderr": [(e.get("line"), e.get("col"), e.get("msg")) for e in (r.get("errs") or [])]} if nerr and len(rep.samples) < 4 else None)
        rep.count(c["kind"])
        rep.count("errors=%d" % nerr)
        replay = {"schema": c["schema"], "queries": c["queries"], "impl": {k: r.get(k) for k in ("ok", "errs", "panic")}}
        if r.get("ok") or "panic" in r:
            continue
        if any("edited query syntax is invalid" in e.get("msg", "") for e in r["errs"]):
            rep.count("reparse-rejected (error set not predictable by the model)")
            continue
        if any(e.get("file") not in (None, "query.sql") for e in r["errs"]):
            rep.violation("a diagnostic names the wrong file", replay)
        if known04 % 100 == 5:
            rep.count("star-expansion-defect-class(C02/C07)")
            continue
        if diff == 4:
            rep.violation("correspondence corr:C17:parse_file broken: the set of failing statements differs between model and sqlc", replay, no_input=True)
        elif not holds17:
            rep.violation("a diagnostic's line is outside its statement's region (or column < 1)", replay, klass=KNOWN.get(k17))
        elif diff == 2 and wf:
            rep.violation("correspondence corr:C17:line_number broken: reported positions differ from the model's", replay, no_input=True)
    if getattr(rep, "proof_broken", None) and not rep.violations:
        rep.violation("proof obligation no longer checks: " + rep.proof_broken, {"theorem_file": "coq/theories/Props/C17.v", "detail": info}, no_input=True)
    return rep.finish("proof", ob, dis, checker_cmd(PROP),
                      rule="query files with 1-5 statements in random layout of which a random subset is in error (unknown column / relation, bad annotation, missing RETURNING, parameter errors), with blank lines, comments, indentation and multi-byte characters before and inside the statements; each stderr position must lie in the region of the statement it belongs to; non-trivial = at least one diagnostic",
                      assumptions=["statement regions are the real parser's StmtLocation/StmtLen", "which statements fail is taken from the model (checked by the correspondence)"])
