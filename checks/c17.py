"""C17 — Diagnostics name the right file and a line inside the statement."""
from cfile import *

PROP = "C17"
KNOWN = {2: "double_dash_inside_literal_taken_for_comment"}


FILE_NAMES = ["a.sql", "b.sql", "10_x.sql", "2_y.sql", "B.sql", "a_b.sql", "a.b.sql", "authors.sql", "books.sql", "z.sql"]


def multi_file(rep, rng, tier):
    """'All offending statements of all files are reported, one line each, in file then source order': a package with 2-3
    query files (one directory, read in name order), each with several statements of which some are in error, must report
    exactly the diagnostics each file gives when it is the only file, file by file in name order."""
    n = 120 if tier == "quick" else 3000
    cases = []
    for _ in range(n):
        sch = Schema(rng)
        names = rng.sample(FILE_NAMES, rng.randint(2, 3))
        files = {nm: gen_file(rng, errors=rng.choice([0.5, 0.8, 1.0]), sch=sch, prefix="F%d" % i)["queries"] for i, nm in enumerate(names)}
        cases.append((sch.sql, files))
    # (i) every file on its own, judged like the single-file cases (positions inside the statement's region, model = sqlc)
    singles = []
    for ci, (schema, files) in enumerate(cases):
        for nm in sorted(files):
            singles.append({"schema": schema, "queries": files[nm], "kind": "multi", "style": "layout", "_key": (ci, nm)})
    alone = {}
    for c, r, v in run_files(rep, singles):
        wf, known04, holds04, diff, holds17, k17 = v
        alone[c["_key"]] = r
        if r.get("ok") or "panic" in r or known04 % 100 == 5 or any("edited query syntax is invalid" in e.get("msg", "") for e in r["errs"]):
            continue
        replay = {"schema": c["schema"], "queries": c["queries"], "impl": {k: r.get(k) for k in ("ok", "errs", "panic")}}
        if diff == 4:
            rep.violation("correspondence corr:C17:parse_file broken: the set of failing statements differs between model and sqlc", replay, no_input=True)
        elif not holds17:
            rep.violation("a diagnostic's line is outside its statement's region (or column < 1)", replay, klass=KNOWN.get(k17))
        elif diff == 2 and wf:
            rep.violation("correspondence corr:C17:line_number broken: reported positions differ from the model's", replay, no_input=True)
    # (ii) all files of the package together (Props/C17.v C17_files_partial: the model's file loop reports file by file what
    # each file reports alone, given distinct query names)
    res = run_harness([{"op": "compile", "engine": "postgresql", "schema": schema, "queries": "", "query_files": files} for schema, files in cases])
    for ci, ((schema, files), together) in enumerate(zip(cases, res)):
        rs = [alone.get((ci, nm)) for nm in sorted(files)]
        if together.get("stage") == "schema" or any(r is None or "panic" in r for r in [together] + rs):
            rep.count("multi-file:skipped")
            continue
        line = lambda e, nm: (nm, e.get("line"), e.get("col"), e.get("msg"))
        want = [line(e, nm) for nm, r in zip(sorted(files), rs) if not r.get("ok") for e in r.get("errs", [])
                if "no queries contained" not in e.get("msg", "")]
        got = [line(e, e.get("file")) for e in (together.get("errs") or []) if "no queries contained" not in e.get("msg", "")] if not together.get("ok") else []
        rep.case(("multi", schema, json.dumps(files, sort_keys=True)), nontrivial=len(want) > 1,
                 sample={"files": sorted(files), "stderr": got} if len(rep.samples) < 6 and len(want) > 2 else None)
        rep.count("multi-file:errors-in-%d-files" % len(set(w[0] for w in want)))
        if got != want:
            what = "in a different order" if sorted(map(str, got)) == sorted(map(str, want)) else "a different set"
            rep.violation("a package with several query files reports %s of diagnostics than its files report one by one in name order: want %s, got %s"
                          % (what, [w[:2] for w in want], [g[:2] for g in got]), {"schema": schema, "query_files": files, "together": got, "file_by_file": want})


def printed_names(rep, rng, tier):
    """'file is the query file containing the offending statement': through cmd.Generate (printFileErr prints names relative to
    the configuration directory) with the query files inside, next to and outside the configuration directory."""
    schema = "CREATE TABLE t (id int PRIMARY KEY, name text);\n"
    good = "-- name: Ok%d :many\nSELECT id FROM t;\n"
    bad = "-- name: Bad%d :one\nSELECT nosuch FROM t WHERE id = $1;\n"
    layouts = [(".", "queries"), ("db", "q"), ("db", "../db-queries"), ("db", "../dbq"), ("db", "../other/db"), ("a/b", "../../a/b-sql"), ("conf", "../conf.d/sql"), ("x", "../x_y")]
    jobs, meta = [], []
    for cd, qrel in layouts:
        for two in (False, True):
            qdir = os.path.normpath(os.path.join(cd, qrel))
            files = {os.path.join(cd, "sqlc.json"): json.dumps({"version": "1", "packages": [{"path": "out", "engine": "postgresql", "schema": "schema.sql", "queries": qrel}]}),
                     os.path.join(cd, "schema.sql"): schema,
                     os.path.join(qdir, "authors.sql"): good % 1 + "\n" + bad % 1}
            if two:
                files[os.path.join(qdir, "books.sql")] = "\n" + bad % 2 + good % 2
            jobs.append({"op": "generate", "files": {k.lstrip("./"): v for k, v in files.items()}, "config_dir": "" if cd == "." else cd, "nofiles": True})
            meta.append((cd, qrel, qdir, sorted(f for f in files if f.endswith(".sql") and "schema" not in f)))
    for (cd, qrel, qdir, qfiles), r in zip(meta, run_harness(jobs)):
        rep.case(("printed-names", cd, qrel, len(qfiles)), nontrivial=True)
        rep.count("printed-names:%s" % ("inside" if not qrel.startswith("..") else "outside"))
        replay = {"config_dir": cd, "queries": qrel, "query_files": qfiles, "stderr": r.get("stderr")}
        if r.get("ok") or "panic" in r:
            rep.violation("a package with offending statements generates (or panics) when the query files are at %s relative to the configuration" % qrel, replay)
            continue
        names = [m.group(1) for m in re.finditer(r"(?m)^([^#\n][^\n:]*):\d+:\d+: ", r.get("stderr") or "")]
        # the transcription of printFileErr (Model/Driver.v print_name, theorems C17_printed_name_*) on the same files: the tree
        # is rooted at /r here, the harness strips its own root from stderr
        if len(names) == len(qfiles):
            root_cd = "/r" if cd == "." else "/r/" + cd
            ex = ["[if String.eqb (trim_prefix (print_name %s %s) \"/r/\") %s then 1%%N else 0%%N]" % (coqstr(root_cd), coqstr("/r/" + f.lstrip("./")), coqstr(n_))
                  for f, n_ in zip(qfiles, names)]
            if any(v != [1] for v in coq_eval("From Verif Require Import Base.Str Model.Driver.\nOpen Scope string_scope. Open Scope list_scope.\n", ex, tag="c17names")):
                rep.violation("correspondence corr:C17:print_name broken: the names printFileErr prints differ from Model/Driver.v print_name (%s)" % names, replay, no_input=True)
        want = []
        for f in qfiles:
            f = f.lstrip("./")
            rel_cfg = os.path.relpath(f, cd)
            want.append({f, rel_cfg} if not rel_cfg.startswith("..") else {f})       # relative to the config dir when inside it, else the path itself
        if len(names) != len(want) or any(n not in w for n, w in zip(names, want)):
            rep.violation("the diagnostics name %s; the offending statements are in %s" % (names, [sorted(w) for w in want]), replay)


def run(tier, seed):
    rep = Report(PROP, tier, seed)
    ok, info = prep(PROP)
    ob, dis = proof_gate(rep, PROP, ok, info)
    rng = random.Random(seed)
    n = 700 if tier == "quick" else 20000
    cases = [gen_file(rng, errors=rng.choice([0.3, 0.6, 1.0])) for _ in range(n)]
    for c, r, v in run_files(rep, cases):
        wf, known04, holds04, diff, holds17, k17 = v
        nerr = len(r.get("errs") or [])
        rep.case((c["schema"], c["queries"]), nontrivial=nerr > 0,
                 sample={"queries": c["queries"], "stderr": [(e.get("line"), e.get("col"), e.get("msg")) for e in (r.get("errs") or [])]} if nerr and len(rep.samples) < 4 else None)
        rep.count(c["kind"])
        rep.count("errors=%d" % nerr)
        replay = {"schema": c["schema"], "queries": c["queries"], "impl": {k: r.get(k) for k in ("ok", "errs", "panic")}}
        if r.get("ok") or "panic" in r:
            continue
        if any("edited query syntax is invalid" in e.get("msg", "") for e in r["errs"]):
            rep.count("reparse-rejected (error set not predictable by the model)")
            continue
        if any(e.get("file") not in (None, "query.sql") for e in r["errs"]):
            rep.violation("a diagnostic names the wrong file", replay)
        if known04 % 100 == 5:
            rep.count("star-expansion-defect-class(C02/C07)")
            continue
        if diff == 4:
            rep.violation("correspondence corr:C17:parse_file broken: the set of failing statements differs between model and sqlc", replay, no_input=True)
        elif not holds17:
            rep.violation("a diagnostic's line is outside its statement's region (or column < 1)", replay, klass=KNOWN.get(k17))
        elif diff == 2 and wf:
            rep.violation("correspondence corr:C17:line_number broken: reported positions differ from the model's", replay, no_input=True)
    multi_file(rep, rng, tier)
    printed_names(rep, rng, tier)
    if getattr(rep, "proof_broken", None) and not rep.violations:
        rep.violation("proof obligation no longer checks: " + rep.proof_broken, {"theorem_file": "coq/theories/Props/C17.v", "detail": info}, no_input=True)
    return rep.finish("proof", ob, dis, checker_cmd(PROP),
                      rule="query files with 1-5 statements in random layout of which a random subset is in error (unknown column / relation, bad annotation, missing RETURNING, parameter errors), with blank lines, comments, indentation and multi-byte characters before and inside the statements; each stderr position must lie in the region of the statement it belongs to; packages with 2-3 query files (directory read in name order) whose diagnostics must be those of each file alone, file by file then in source order; non-trivial = at least one diagnostic (more than one for the multi-file cases)",
                      assumptions=["statement regions are the real parser's StmtLocation/StmtLen", "which statements fail is taken from the model (checked by the correspondence)"])
