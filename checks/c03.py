"""C03 — Arguments bind one-to-one, in order, to the SQL placeholders."""
from cq import *

PROP = "C03"
import re

KNOWN = {1: "param_nested_in_function_dropped", 2: "param_twice_in_one_call_duplicated", 3: "param_without_context_dropped"}


def classify(known, c, r):
    if known in KNOWN:
        return KNOWN[known]
    q = c["queries"]
    # the two C04 defects that garble the text of a named parameter also change the placeholders of the embedded SQL
    if re.search(r"@\w+::[\w\[\]]+::", q):
        return "named_parameter_with_two_casts"
    if re.search(r"sqlc\.arg\(\s+|sqlc\.arg\([^)]*\s\)|sqlc\.arg\(\"", q):
        return "sqlc_arg_spelling_changes_replaced_length"
    return None


def run(tier, seed):
    return run_query_property(
        PROP, "judge_c03", "From Verif Require Import Judge.J03.", KNOWN,
        rule="random schemas (1-3 tables, reserved-word names, enum/array columns) and single annotated statements of the supported grammar (SELECT with joins/sub-selects/CTEs/UNION, INSERT/UPDATE/DELETE with RETURNING) with placeholders in every clause, positional (shuffled, repeated) or sqlc.arg/@name; every case is distinct (hash of schema+query) and non-trivial",
        assumptions=["the engine's SQL parser is not modelled: the model consumes the AST the real parser produced for the same text",
                     "the placeholders a database sees are those found by the lexer Spec/Placeholders.v in the embedded SQL"],
        tier=tier, seed=seed, what="embedded SQL placeholders and parameter list disagree", classify=classify)
