"""C03 — Arguments bind one-to-one, in order, to the SQL placeholders."""
from cq import *

PROP = "C03"
KNOWN = {1: "param_nested_in_function_dropped", 2: "param_twice_in_one_call_duplicated", 3: "param_without_context_dropped"}


def run(tier, seed):
    return run_query_property(
        PROP, "judge_c03", "From Verif Require Import Judge.J03.", KNOWN,
        rule="random schemas (1-3 tables, reserved-word names, enum/array columns) and single annotated statements of the supported grammar (SELECT with joins/sub-selects/CTEs/UNION, INSERT/UPDATE/DELETE with RETURNING) with placeholders in every clause, positional (shuffled, repeated) or sqlc.arg/@name; every case is distinct (hash of schema+query) and non-trivial",
        assumptions=["the engine's SQL parser is not modelled: the model consumes the AST the real parser produced for the same text",
                     "the placeholders a database sees are those found by the lexer Spec/Placeholders.v in the embedded SQL"],
        tier=tier, seed=seed, what="embedded SQL placeholders and parameter list disagree")
