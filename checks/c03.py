"""C03 — Arguments bind one-to-one, in order, to the SQL placeholders."""
from cq import *

PROP = "C03"
import re

KNOWN = {1: "param_nested_in_function_dropped", 2: "param_twice_in_one_call_duplicated", 3: "param_without_context_dropped"}


def classify(known, c, r):
    if known in KNOWN:
        return KNOWN[known]
    q = c["queries"]
    # the two C04 defects that garble the text of a named parameter also change the placeholders of the embedded SQL
    if re.search(r"@\w+::[\w\[\]]+::", q):
        return "named_parameter_with_two_casts"
    if re.search(r"sqlc\.arg\(\s+|sqlc\.arg\([^)]*\s\)|sqlc\.arg\(\"", q):
        return "sqlc_arg_spelling_changes_replaced_length"
    # ... and the third: a named parameter inside SET (a, b) = (.., ..) is rewritten once per target column
    if re.search(r"(?is)\bSET\s*\([^)]*\)\s*=\s*\([^;]*?(@\w|sqlc\.arg)", q):
        return "named_parameter_in_multi_column_assignment"
    return None


def end_to_end(rep, rng, tier):
    """The judge looks at the compiler's result for the Go target.  What the user calls is the emitted method: the arguments it
    hands to the driver and the SQL constant they are bound to must be the same under every configuration that contains the
    package - version 1, or version 2 with a Kotlin target (which compiles in positional mode) before, next to or after it."""
    import json as _json
    from qcommon import gen_case
    n = 120 if tier == "quick" else 2500
    cases = [gen_case(rng) for _ in range(n)]
    blk = lambda gen: {"schema": "schema.sql", "queries": "query.sql", "engine": "postgresql", "gen": gen}
    go, kt = {"go": {"package": "db", "out": "db"}}, {"kotlin": {"package": "kt", "out": "kt"}}
    variants = [("v1-go", {"version": "1", "packages": [{"path": "db", "engine": "postgresql", "schema": "schema.sql", "queries": "query.sql"}]}),
                ("kotlin-block-then-go-block", {"version": "2", "sql": [blk(kt), blk(go)]}),
                ("go-and-kotlin-one-block", {"version": "2", "sql": [blk(dict(go, **kt))]}),
                ("go-block-then-kotlin-block", {"version": "2", "sql": [blk(go), blk(kt)]})]
    jobs = [{"op": "generate", "summary": True, "nofiles": True, "files": {"sqlc.json": _json.dumps(cfg), "schema.sql": c["schema"], "query.sql": c["queries"]}}
            for c in cases for _, cfg in variants]
    res = run_harness(jobs)

    def binding(g):
        out = {}
        for f, sm in g["summary"].items():
            if f.startswith("db/") and f.endswith(".sql.go"):
                consts = {k["name"]: k["value"] for k in sm.get("consts", [])}
                for m in sm.get("methods", []):
                    if m["recv"] == "Queries" and m.get("call_const"):
                        out[m["name"]] = (consts.get(m["call_const"]), m.get("call_args"), [(p_["name"], p_["type"]) for p_ in m["params"]])
        return out

    for i, c in enumerate(cases):
        rs = res[len(variants) * i:len(variants) * (i + 1)]
        base = rs[0]
        if "panic" in base or not base.get("ok"):
            rep.count("e2e:not-generated")
            continue
        want = binding(base)
        rep.count("e2e:methods", len(want))
        for (vn, _), g in zip(variants[1:], rs[1:]):
            replay = {"schema": c["schema"], "queries": c["queries"], "configuration": vn}
            if "panic" in g:
                rep.violation("sqlc panics under configuration %s: %s" % (vn, g["panic"][:100]), replay)
            elif not g.get("ok"):
                rep.count("e2e:%s:kotlin-refuses" % vn)
            elif binding(g) != want:
                got = binding(g)
                nm = next((k for k in want if got.get(k) != want[k]), None)
                rep.violation("under configuration %s the emitted Go method %s binds %s to %r; alone (version 1) it binds %s to %r"
                              % (vn, nm, (got.get(nm) or [None, None])[1], (got.get(nm) or [""])[0], want[nm][1], want[nm][0]), replay)
            else:
                rep.count("e2e:%s:same-binding" % vn)


def run(tier, seed):
    return run_query_property(
        PROP, "judge_c03", "From Verif Require Import Judge.J03.", KNOWN,
        rule="random schemas (1-3 tables, reserved-word names, enum/array columns) and single annotated statements of the supported grammar (SELECT with joins/sub-selects/CTEs/UNION, INSERT/UPDATE/DELETE with RETURNING) with placeholders in every clause, positional (shuffled, repeated) or sqlc.arg/@name; the emitted Go method (driver-call arguments and SQL constant) under four configurations (version 1; version 2 with a Kotlin target before / next to / after the Go target); every case is distinct (hash of schema+query) and non-trivial",
        assumptions=["the engine's SQL parser is not modelled: the model consumes the AST the real parser produced for the same text",
                     "the placeholders a database sees are those found by the lexer Spec/Placeholders.v in the embedded SQL"],
        tier=tier, seed=seed, what="embedded SQL placeholders and parameter list disagree", classify=classify, pre_finish=end_to_end)
