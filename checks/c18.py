"""C18 — sqlc never crashes or hangs, whatever the input."""
import json
import random
import re
import subprocess
import tempfile
import shutil
from concurrent.futures import ThreadPoolExecutor
from common import *
from qcommon import Schema, QGen, gen_case

PROP = "C18"

# panic message / innermost sqlc frame -> known-finding class
SITES = [
    (r"too many field items", "three_part_column_reference_next_to_parameter"),
    (r"index out of range.*|find_params\.go", None),   # refined below by frame
]


def classify(panic, stack):
    frames = re.findall(r"internal/[\w/]+\.go:\d+|internal/[\w/]+/\w+\.go", stack or "")
    top = ""
    for line in (stack or "").splitlines():
        m = re.search(r"/(internal/[\w/.]+\.go):(\d+)", line)
        if m and "harness" not in line:
            top = m.group(1)
            break
    if "too many field items" in panic:
        return "three_part_column_reference_next_to_parameter"
    if "unknown engine" in panic:
        return "unknown_engine_panics"
    if "find_params.go" in top and "index out of range" in panic:
        return "insert_values_wider_than_column_list"
    if "resolve.go" in top and ("nil pointer" in panic or "invalid memory" in panic):
        return "parameter_target_without_table"
    if "resolve.go" in top and "index out of range" in panic:
        return "function_called_with_more_arguments_than_declared"
    if "named argument" in panic:
        return "function_called_with_more_arguments_than_declared"
    if "source/code.go" in top and "index out of range" in panic:
        return "query_file_ends_with_dash"
    if "dolphin" in top or "expected range var" in panic:
        return "mysql_statement_kind_not_converted"
    if "unsupported JSON tags case style" in panic:
        return "unsupported_json_tags_case_style"
    if "walk.go" in top or "walk: unexpected node type" in panic or "rewrite.go" in top:
        return "node_kind_unknown_to_walk"
    if "output_columns.go" in top or "expand.go" in top:
        return "nil_list_in_statement"
    if "to_column.go" in top or "toColumn" in panic:
        return "nil_type_name"
    if "postgresql/convert.go" in top or "postgresql/parse.go" in top:
        return "postgresql_statement_kind_not_converted"
    return None


PG_STATEMENTS = [
    # names with more parts than any object can have (PostgreSQL: "improper qualified name")
    "SELECT a.b.c.d(1) FROM t", "SELECT a.b.c.d.e($1)", "SELECT * FROM a.b.c.t", "SELECT id FROM a.b.c.d.t WHERE id = $1", "SELECT $1::a.b.c.d", "SELECT CAST(id AS a.b.c.d) FROM t",
    "INSERT INTO a.b.c.t (id) VALUES ($1)", "UPDATE a.b.c.t SET id = $1", "DELETE FROM a.b.c.t WHERE id = $1", "SELECT t.* FROM t WHERE id = a.b.c.d.f(id)",
    "SELECT 1", "SELECT $1 AS x", "SELECT $1::int AS x", "VALUES (1), (2)", "SELECT * FROM (VALUES (1),(2)) AS t", "TABLE t",
    "SELECT FROM t WHERE id = $1", "INSERT INTO t (id) VALUES ($1), ($2)", "INSERT INTO t (id) VALUES ($1, $2)", "INSERT INTO t VALUES ($1, $2)",
    "INSERT INTO t DEFAULT VALUES", "INSERT INTO t (id, name) SELECT $1, $2", "INSERT INTO t (id) VALUES ($1) ON CONFLICT (id) DO UPDATE SET name = $2",
    "UPDATE t SET (id, name) = ($1, $2)", "UPDATE t SET (id, name) = (SELECT 1, 'x') WHERE id = $1", "UPDATE ONLY t SET id = $1",
    "DELETE FROM t USING u WHERE t.id = u.id AND u.id = $1", "TRUNCATE t, u", "SELECT * FROM t WHERE public.t.id = $1", "SELECT * FROM t WHERE a.b.c.d = $1",
    "SELECT lower($1, $2, $3)", "SELECT count($1) FROM t", "SELECT concat($1, $2, $3)", "SELECT concat_ws($1, $2, $3, $4)", "SELECT format($1, $2, $3)",
    "INSERT INTO t (id) VALUES ($1), ($2, $3)", "INSERT INTO t (id) SELECT $1, $2", "SELECT generate_series($1, $2, $3, $4)", "SELECT f(a => $1)", "SELECT lower(nosuch => $1)",
    "SELECT CAST($1 AS int)", "SELECT $1::int[]", "SELECT ARRAY[$1, $2]", "SELECT ROW($1, $2)", "SELECT ($1, $2) = (1, 2)", "SELECT $1 IS NULL",
    "SELECT * FROM t LIMIT $1 OFFSET $1", "SELECT * FROM t ORDER BY $1", "SELECT * FROM t GROUP BY $1 HAVING count(*) > $2", "SELECT * FROM t FOR UPDATE",
    "SELECT * FROM generate_series(1, $1)", "SELECT * FROM t TABLESAMPLE SYSTEM ($1)", "SELECT * FROM t WINDOW w AS (PARTITION BY id)",
    "WITH RECURSIVE r AS (SELECT 1 UNION ALL SELECT 2) SELECT * FROM r WHERE $1", "SELECT 1 UNION SELECT $1 EXCEPT SELECT $2", "SELECT EXISTS (SELECT $1)",
    "SELECT CASE WHEN $1 THEN $2 ELSE $3 END", "SELECT COALESCE($1, $2)", "SELECT NULLIF($1, 1)", "SELECT GREATEST($1, $2)", "SELECT $1 BETWEEN 1 AND 2",
    "SELECT id FROM t WHERE id IN ($1)", "SELECT id FROM t WHERE id = ANY($1)", "SELECT id FROM t WHERE id = ALL(SELECT $1)", "SELECT t.* FROM t JOIN u USING (id) WHERE $1",
    "SELECT * FROM t NATURAL JOIN u", "SELECT * FROM t CROSS JOIN LATERAL (SELECT $1) x", "SELECT sqlc.arg()", "SELECT sqlc.arg(a, b)", "SELECT sqlc.arg(1)", "SELECT sqlc.narg(x)",
    "SELECT @x, $1", "SELECT @", "EXPLAIN SELECT 1", "CREATE TABLE z (a int)", "DROP TABLE t", "BEGIN", "COMMIT", "SET search_path = x", "COPY t FROM STDIN", "VACUUM t",
    "GRANT SELECT ON t TO x", "CREATE INDEX i ON t (id)", "ALTER TABLE t ADD COLUMN q int", "DO $$ BEGIN END $$", "LISTEN x", "PREPARE p AS SELECT $1", "EXECUTE p(1)",
    "CALL p($1)", "REFRESH MATERIALIZED VIEW v", "CREATE VIEW v AS SELECT $1", "SELECT 1; SELECT 2", "SELECT id -", "SELECT id FROM t -- tail -", "SELECT '\\x00'",
    "WITH x (a, b) AS (SELECT id, name FROM t) SELECT a, b FROM x WHERE a = $1", "WITH x (a, b, c) AS (SELECT id, name FROM t) SELECT * FROM x",
    "WITH labels (code, label) AS (VALUES (1, 'one'), (2, 'two')) SELECT t.id, labels.label FROM t JOIN labels ON labels.code = t.id WHERE t.id = $1",
    "WITH x (a) AS (SELECT id, name FROM t) SELECT * FROM x", "SELECT * FROM (SELECT id, name FROM t) AS s (a, b, c) WHERE a = $1", "SELECT * FROM t AS s (a, b, c, d)",
    "SELECT concat(name, name, 'x', $1) FROM t", "SELECT concat_ws(',', name, $1, $2, $3, $4) FROM t", "SELECT format('%s %s %s', $1, $2, $3)",
    "LOCK TABLE t", "SHOW ALL", "CREATE FUNCTION f() RETURNS int AS 'select 1' LANGUAGE sql", "COMMENT ON TABLE t IS 'x'", "SELECT * FROM t WHERE name LIKE $1 ESCAPE $2",
    "SELECT id::text::int::text FROM t WHERE id = $1::int::bigint", "SELECT (SELECT (SELECT $1))", "DELETE FROM t RETURNING *, *", "UPDATE t SET id = DEFAULT WHERE CURRENT OF c",
]
MY_STATEMENTS = [
    "SELECT 1", "SELECT * FROM t WHERE id = ?", "SELECT * FROM t WHERE id IN (?, ?)", "SELECT * FROM t LIMIT ?, ?", "INSERT INTO t (id) VALUES (?), (?)",
    "INSERT INTO t SET id = ?", "REPLACE INTO t (id) VALUES (?)", "UPDATE t, u SET t.id = ? WHERE t.id = u.id", "DELETE t, u FROM t JOIN u ON t.id = u.id WHERE t.id = ?",
    "DELETE FROM t ORDER BY id LIMIT ?", "SELECT * FROM t WHERE name LIKE ?", "SELECT * FROM t WHERE id BETWEEN ? AND ?", "SELECT sqlc.arg(x)", "SELECT sqlc.arg(x), sqlc.arg(x)",
    "SELECT CASE WHEN ? THEN 1 END", "SELECT -?", "SELECT ? IS NULL", "SELECT * FROM t GROUP BY ? HAVING ?", "SHOW TABLES", "CREATE TABLE z (a int)", "TRUNCATE t",
    "SELECT * FROM t UNION SELECT * FROM u", "SELECT (SELECT ?)", "WITH c AS (SELECT ?) SELECT * FROM c", "CALL p(?)", "SET @a = ?", "SELECT @a", "SELECT * FROM t FOR UPDATE",
    "INSERT INTO t (id) VALUES (?) ON DUPLICATE KEY UPDATE name = ?", "SELECT * FROM t PARTITION (p0)", "SELECT a.* FROM t a STRAIGHT_JOIN u b ON a.id = b.id WHERE b.id = ?",
    "SELECT CONCAT(name, name, 'x', ?) FROM t", "SELECT CONCAT_WS(',', name, ?, ?, ?) FROM t", "SELECT COALESCE(name, ?, ?, ?) FROM t", "SELECT GREATEST(id, ?, ?, ?, ?) FROM t",
    "SELECT ELT(?, 'a', 'b', 'c', 'd') FROM t", "SELECT FIELD(?, 'a', 'b', 'c', 'd', 'e')", "SELECT JSON_OBJECT('a', ?, 'b', ?, 'c', ?)", "SELECT CHAR(?, ?, ?, ?)",
    "ALTER TABLE t ADD COLUMN q int", "DROP TABLE t", "LOAD DATA INFILE 'x' INTO TABLE t", "SELECT CONVERT(? USING utf8)", "SELECT CAST(? AS UNSIGNED)", "SELECT id -",
]
SCHEMA_PG = "CREATE TABLE t (id int PRIMARY KEY, name text);\nCREATE TABLE u (id int, name text);\n"
SCHEMA_MY = "CREATE TABLE t (id int PRIMARY KEY, name varchar(10));\nCREATE TABLE u (id int, name text);\n"


def mutate_text(rng, s):
    ops = rng.randint(1, 3)
    b = s
    for _ in range(ops):
        k = rng.random()
        if k < 0.25 and len(b) > 2:
            b = b[:rng.randrange(1, len(b))]                      # truncation
        elif k < 0.45:
            i = rng.randrange(len(b) + 1)
            b = b[:i] + rng.choice(["(", ")", "'", '"', ";", "$1", "$9", "--", "/*", "*/", "-", ",", ".", "*", "@", "sqlc.arg(", "\x00", "é", "\n", "::", " name: X :one"]) + b[i:]
        elif k < 0.65:
            toks = b.split(" ")
            if len(toks) > 1:
                i = rng.randrange(len(toks))
                toks[i] = rng.choice(["", "SELECT", "FROM", "t", "NULL", "$1", "(", "id", "*", "RETURNING", "VALUES"])
                b = " ".join(toks)
        elif k < 0.8:
            toks = b.split(" ")
            if len(toks) > 2:
                i, j = rng.randrange(len(toks)), rng.randrange(len(toks))
                toks[i], toks[j] = toks[j], toks[i]
                b = " ".join(toks)
        else:
            b = b.replace(rng.choice([" ", ",", "(", "1"]), rng.choice(["", "  ", "\t", "((", "$2"]), 1)
    return b


def gen_jobs(rng, tier):
    jobs = []
    def add(engine, schema, queries, cfg_extra=None, files_extra=None, tag=""):
        pkg = {"path": "db", "engine": engine, "schema": "schema.sql", "queries": "query.sql"}
        cfg = {"version": "1", "packages": [pkg]}
        if cfg_extra:
            cfg_extra(cfg, pkg)
        files = {"sqlc.json": json.dumps(cfg), "schema.sql": schema, "query.sql": queries}
        if files_extra:
            files.update(files_extra)
        jobs.append(({"op": "generate", "files": files, "nofiles": True}, tag))
    for cmd in (":one", ":many", ":exec"):
        for st in PG_STATEMENTS:
            add("postgresql", SCHEMA_PG, "-- name: Q %s\n%s;\n" % (cmd, st), tag="kind:pg")
        for st in MY_STATEMENTS:
            add("mysql", SCHEMA_MY, "-- name: Q %s\n%s;\n" % (cmd, st), tag="kind:mysql")
    # every statement kind as a schema statement too
    for st in PG_STATEMENTS:
        add("postgresql", SCHEMA_PG + st + ";\n", "-- name: Q :exec\nSELECT 1;\n", tag="schema:pg")
    for st in MY_STATEMENTS:
        add("mysql", SCHEMA_MY + st.replace("?", "1") + ";\n", "-- name: Q :exec\nSELECT 1;\n", tag="schema:mysql")
    # DDL histories (valid and invalid, with IF [NOT] EXISTS and unknown schemas) as schema files
    import c08
    for st in ["DROP TABLE IF EXISTS legacy.venues", "DROP TYPE IF EXISTS legacy.kind", "DROP SCHEMA IF EXISTS legacy", "ALTER TABLE IF EXISTS legacy.t ADD COLUMN a int",
               "COMMENT ON TABLE legacy.t IS 'x'", "ALTER TYPE legacy.e ADD VALUE 'x'", "ALTER TABLE legacy.t RENAME TO u2", "ALTER TABLE t SET SCHEMA legacy",
               "CREATE TABLE legacy.z (a int)", "CREATE TYPE legacy.e AS ENUM ('a')", "DROP TABLE IF EXISTS nosuch", "DROP TABLE nosuch, t", "ALTER TABLE t DROP COLUMN IF EXISTS nosuch",
               "COMMENT ON COLUMN t.nosuch IS 'x'", "COMMENT ON COLUMN a.b.c.d.e IS 'x'", "ALTER TABLE t RENAME COLUMN nosuch TO x"]:
        add("postgresql", SCHEMA_PG + st + ";\n", "-- name: Q :exec\nSELECT 1;\n", tag="schema:ddl")
    for _ in range(1500 if tier == "quick" else 8000):
        hist = c08.gen_history(rng, rng.choice([3, 8, 15]))
        if rng.random() < 0.5:
            rng.shuffle(hist)        # out of order: mostly invalid
        add("postgresql", "\n".join(sq for sq, _ in hist) + "\n", "-- name: Q :exec\nSELECT 1;\n", tag="schema:history")
    # configuration space
    for eng in ("sqlite", "", "postgres", "MYSQL", "_lemon", 7):
        add("postgresql", SCHEMA_PG, "-- name: Q :exec\nSELECT 1;\n", cfg_extra=lambda c, p, e=eng: p.update(engine=e), tag="config:engine")
    for mod in (lambda c, p: p.update(path=""), lambda c, p: p.update(schema=[]), lambda c, p: p.update(queries=[]), lambda c, p: c.update(packages=[]),
                lambda c, p: c.update(version="3"), lambda c, p: c.update(overrides=[{"go_type": "", "db_type": "x"}]), lambda c, p: c.update(overrides=[{"go_type": "a.b", "column": "x"}]),
                lambda c, p: c.update(overrides=[{"go_type": {"type": "T", "package": "p"}, "db_type": "x"}]), lambda c, p: c.update(rename={"": ""}),
                lambda c, p: p.update(name="1bad"), lambda c, p: p.update(name=""), lambda c, p: p.update(emit_json_tags=True, json_tags_case_style="weird")):
        add("postgresql", SCHEMA_PG, "-- name: Q :one\nSELECT id, name FROM t;\n", cfg_extra=mod, tag="config:other")
    # override / rename strings: every spelling of go_type (basic, pointer, slice, qualified, versioned path, garbage), of the
    # column key and of db_type goes through config.ParseConfig and, if accepted, the generator
    GO_TYPES = ["string", "*string", "**string", "[]byte", "*[]byte", "[]string", "int", "*int64", "interface{}", "*", "", ".", "*.", "a.", ".T", "a.b.c",
                "github.com/x/y.T", "*github.com/x/y.T", "[]github.com/x/y.T", "github.com/x/y/v2.T", "gopkg.in/guregu/null.v3.String", "github.com/x/y", "github.com/x/y.",
                "*github.com/x/y", "a/b.c.D", "time.Time", "*time.Time", "map[string]int", "func()", "é.T", " string", "string ", "string;", "uuid.UUID",
                {"type": "T"}, {"import": "github.com/x/y", "type": "T"}, {"import": "github.com/x/y", "package": "z", "type": "*T"}, {"import": "", "type": ""},
                {"import": "github.com/x/y", "type": "T", "pointer": True}, {}]
    for gt in GO_TYPES:
        for key in ({"db_type": "text"}, {"db_type": "text", "nullable": True}, {"column": "t.name"}):
            add("postgresql", SCHEMA_PG, "-- name: Q :one\nSELECT id, name FROM t;\n",
                cfg_extra=lambda c, p, g=gt, k=key: c.update(overrides=[dict(k, go_type=g)]), tag="config:go_type")
    for col in ("", ".", "t.", ".name", "a.b.c.d", "*.name", "t.*", "public.t.name", "db.public.t.name", "t..name", "T.NAME", 'é.x'):
        add("postgresql", SCHEMA_PG, "-- name: Q :one\nSELECT id, name FROM t;\n",
            cfg_extra=lambda c, p, k=col: c.update(overrides=[{"go_type": "string", "column": k}]), tag="config:column")
    for dbt in ("", "text[]", "pg_catalog.", ".text", "a.b.c", " text"):
        add("postgresql", SCHEMA_PG, "-- name: Q :one\nSELECT id, name FROM t;\n",
            cfg_extra=lambda c, p, k=dbt: c.update(overrides=[{"go_type": "string", "db_type": k}]), tag="config:db_type")
    # version-2 configurations: renames and overrides at package level, at top level (per language), both, neither
    import itertools as _it
    pkg_opts = [{}, {"rename": {"id": "Ident"}}, {"overrides": [{"go_type": "string", "db_type": "text"}]}, {"rename": {"name": "Label"}, "overrides": [{"go_type": "int64", "column": "t.id"}]},
                {"rename": {}}, {"overrides": []}]
    top_opts = [None, {}, {"go": {}}, {"go": {"rename": {"t": "Thing"}}}, {"kotlin": {}}, {"kotlin": {"rename": {"id": "ident"}}}, {"go": {"overrides": [{"go_type": "string", "db_type": "uuid"}]}},
                {"go": {"rename": {"id": "Key"}}, "kotlin": {"rename": {"id": "key"}}}, {"python": {}}]
    for po, to in _it.product(pkg_opts, top_opts):
        for lang in ("go", "kotlin"):
            gen = {"go": dict({"package": "db", "out": "db"}, **po)} if lang == "go" else {"kotlin": dict({"package": "com.x", "out": "kt"}, **{k_: v_ for k_, v_ in po.items() if k_ == "rename"})}
            cfg = {"version": "2", "sql": [{"engine": "postgresql", "schema": "schema.sql", "queries": "query.sql", "gen": gen}]}
            if to is not None:
                cfg["overrides"] = to
            jobs.append(({"op": "generate", "nofiles": True, "files": {"sqlc.json": json.dumps(cfg), "schema.sql": SCHEMA_PG, "query.sql": "-- name: Q :one\nSELECT id, name FROM t;\n"}}, "config:v2"))
    # byte-level streams
    n = 5000 if tier == "quick" else 40000
    seeds = ["-- name: Q :one\n%s;\n" % s for s in PG_STATEMENTS]
    for _ in range(n):
        base = rng.choice(seeds)
        add("postgresql", SCHEMA_PG, mutate_text(rng, base), tag="mutated:query")
    for _ in range(n // 4):
        add("postgresql", mutate_text(rng, SCHEMA_PG + "ALTER TABLE t ADD COLUMN z text;\nCREATE TYPE e AS ENUM ('a');\n"), "-- name: Q :exec\nSELECT 1;\n", tag="mutated:schema")
    for _ in range(n // 4):
        base = rng.choice(["-- name: Q :one\n%s;\n" % s for s in MY_STATEMENTS])
        add("mysql", SCHEMA_MY, mutate_text(rng, base), tag="mutated:mysql")
    for _ in range(n // 8):
        raw = bytes(rng.randrange(256) for _ in range(rng.randint(0, 60))).decode("latin-1")
        add("postgresql", SCHEMA_PG, raw, tag="random-bytes")
    # the structured generator of the query properties
    for _ in range(n // 2):
        c = gen_case(rng, corrupt=rng.choice([0, 0.1]))
        add("postgresql", c["schema"], c["queries"], tag="structured")
    return jobs


def run_binary_faults(rep):
    """file-system conditions and hangs: the real binary under a wall-clock limit"""
    cases = []
    cfg = json.dumps({"version": "1", "packages": [{"path": "db", "engine": "postgresql", "schema": "s", "queries": "q"}]})
    cases.append(("missing-inputs", {"sqlc.json": cfg}, [], []))
    cases.append(("empty-dirs", {"sqlc.json": cfg}, ["s", "q"], []))
    cases.append(("dir-as-file", {"sqlc.json": cfg}, ["s/a.sql", "q/b.sql"], []))
    cases.append(("dangling-symlink", {"sqlc.json": cfg, "s/a.sql": "CREATE TABLE t (id int);"}, ["q"], [("q/x.sql", "/nonexistent/zzz")]))
    cases.append(("empty-files", {"sqlc.json": cfg, "s/a.sql": "", "q/b.sql": ""}, [], []))
    cases.append(("config-is-dir", {}, ["sqlc.json"], []))
    cases.append(("empty-config", {"sqlc.json": ""}, [], []))
    cases.append(("binary-config", {"sqlc.json": "\x00\x01\x02{"}, [], []))
    cases.append(("huge-line", {"sqlc.json": cfg, "s/a.sql": "CREATE TABLE t (id int);\n-- " + "x" * 200000 + "\n", "q/b.sql": "-- name: Q :one\nSELECT id FROM t;\n-- " + "y" * 200000 + "\n"}, [], []))
    cases.append(("deep-nesting", {"sqlc.json": cfg, "s/a.sql": "CREATE TABLE t (id int);", "q/b.sql": "-- name: Q :one\nSELECT " + "(" * 3000 + "1" + ")" * 3000 + ";\n"}, [], []))
    for name, files, dirs, links in cases:
        d = tempfile.mkdtemp(prefix="c18", dir=os.path.join(BUILD, "tmp"))
        try:
            for sub in dirs:
                os.makedirs(os.path.join(d, sub), exist_ok=True)
            for rel, content in files.items():
                p = os.path.join(d, rel)
                os.makedirs(os.path.dirname(p), exist_ok=True)
                open(p, "w", encoding="latin-1").write(content)
            for rel, target in links:
                os.symlink(target, os.path.join(d, rel))
            for cmd in ("generate", "compile"):
                rep.case(("fs", name, cmd), nontrivial=True)
                rep.count("fs:" + name)
                try:
                    p = subprocess.run([SQLC_BIN, cmd], cwd=d, stdout=subprocess.PIPE, stderr=subprocess.PIPE, timeout=30, text=True, errors="replace")
                    rc, err = p.returncode, p.stderr
                except subprocess.TimeoutExpired:
                    rep.violation("sqlc %s does not terminate within 30 s on %s" % (cmd, name), {"case": name})
                    continue
                if rc not in (0, 1) or "panic:" in err or "goroutine " in err:
                    rep.violation("sqlc %s crashes on %s (status %d): %s" % (cmd, name, rc, err[:160]), {"case": name, "stderr": err[:2000]},
                                  klass=classify(err, err))
                elif rc == 1 and not err.strip():
                    rep.violation("sqlc %s fails on %s without a diagnostic" % (cmd, name), {"case": name})
        finally:
            shutil.rmtree(d, ignore_errors=True)


def run(tier, seed):
    rep = Report(PROP, tier, seed)
    ok, info = prep(PROP)
    ob, dis = proof_gate(rep, PROP, ok, info)
    build_sqlc_binary()
    os.makedirs(os.path.join(BUILD, "tmp"), exist_ok=True)
    rng = random.Random(seed)
    jobs = gen_jobs(rng, tier)
    t0 = time.time()
    res = run_harness([j for j, _ in jobs], timeout=3000)
    for (j, tag), r in zip(jobs, res):
        rep.case((tag, j["files"]["query.sql"], j["files"]["schema.sql"], j["files"]["sqlc.json"]), nontrivial=True,
                 sample={"stream": tag, "query": j["files"]["query.sql"][:200], "outcome": "panic" if "panic" in r else ("ok" if r.get("ok") else "error")} if len(rep.samples) < 6 and tag.startswith("mutated") else None)
        rep.count(tag + ":" + ("panic" if "panic" in r else ("ok" if r.get("ok") else "error")))
        if "panic" in r:
            klass = classify(r["panic"], r.get("stack", ""))
            rep.violation("sqlc panics (%s): %s" % (tag, r["panic"][:100]), {"files": j["files"], "panic": r["panic"], "stack": (r.get("stack") or "")[:3000]}, klass=klass)
        elif not r.get("ok") and not (r.get("stderr") or "").strip():
            rep.violation("generation fails without any diagnostic (%s)" % tag, {"files": j["files"]})
    rep.extra["in_process_wall_s"] = round(time.time() - t0, 1)
    run_binary_faults(rep)
    if getattr(rep, "proof_broken", None) and not rep.violations:
        rep.violation("proof obligation no longer checks: " + rep.proof_broken, {"theorem_file": "coq/theories/Props/C18.v", "detail": info}, no_input=True)
    return rep.finish("proof", ob, dis, checker_cmd(PROP),
                      rule="(1) every statement kind the engines' parsers accept (PostgreSQL and MySQL lists) as query under :one/:many/:exec and as schema statement; (2) configuration faults (unknown engines, empty paths, bad overrides); (3) truncations and token-level mutations of valid query and schema files, random bytes; (4) the structured statement generator of the query properties; all in-process under recover(); (5) file-system conditions and pathological sizes through the real binary under a 30 s limit",
                      assumptions=["'all byte strings' pass through two third-party parsers that are not modelled; non-termination is observed with a wall-clock limit, not excluded",
                                   "panic sites of the transcribed code are explicit Panic outcomes of the model, compared with sqlc on every case of the query properties"])
