"""C02 — Result-row shape matches what the embedded SQL returns."""
from cq import *
import re

PROP = "C02"
KNOWN = {1: "derived_table_columns_leak", 2: "update_from_returning_order", 3: "cte_alias_shared", 5: "star_over_unnamed_cte_column", 6: "star_over_qualified_cast_column", 7: "star_over_duplicate_column_names"}


def sql_ast_arg(c, r):
    if r.get("ok") and len(r["queries"]) == 1 and r["queries"][0].get("sql_ast"):
        return [node_coq(r["queries"][0]["sql_ast"])]
    return ["Nil"]


def go_ret_expr(c, r, env):
    """judge_go_ret on the emitted method of an accepted :one/:many query"""
    g = r.get("_gen")
    if not r.get("ok") or g is None or not g.get("ok") or len(r["queries"]) != 1:
        return None
    q = r["queries"][0]
    if q["cmd"] not in (":one", ":many") or not q["columns"]:
        return None
    s = g["summary"]
    qf = s.get("db/query.sql.go", {})
    meth = [m for m in qf.get("methods", []) if m["name"] == q["name"]]
    if len(meth) != 1:
        return None
    m = meth[0]
    rt = m["results"][0]["type"] if m["results"] else ""
    if q["cmd"] == ":many" and m["results"]:
        rt = m["results"][0]["type"][2:]
    fields, is_model = None, False
    allnames = [st["name"] for fname in ("db/models.go", "db/query.sql.go") for st in s.get(fname, {}).get("structs", [])]
    if allnames.count(rt) > 1:
        return None      # two structs of one name: the package does not compile (C01), the method's type is ambiguous
    for fname in ("db/models.go", "db/query.sql.go"):
        for st in s.get(fname, {}).get("structs", []):
            if st["name"] == rt:
                fields = [(f["tag"].replace('db:"', "").rstrip('"'), f["type"]) for f in st["fields"]]
                is_model = fname == "db/models.go"
    if fields is None:
        fields = [("", rt)]
    return "judge_go_ret %s %s %d %s %s" % (env, query_coq(q), len(m["scan_args"]), coqbool(is_model),
                                          coqlist(["(%s, %s)" % (coqstr(a), coqstr(b)) for a, b in fields]))


def go_handle_c02(rep, c, r, v, replay):
    rep.count("go-level-checked")
    if v[0] == 0:
        rep.violation("the generated method scans a different number of destinations / field names than the query returns columns", replay)
    elif len(v) > 3 and v[3] == 0:
        rep.violation("correspondence corr:C02:struct_tags broken: the db tags of the returned struct differ from the columnsToStruct model (Model/GoStruct.v)", replay, no_input=True)


def gen_with_comments(rng):
    """as gen_case; every fifth statement carries block comments inside its result / RETURNING list, two on one line with the
    second closing the line: what the embedded SQL returns must still be what the method scans"""
    c = gen_case(rng)
    if rng.random() < 0.2:
        head, sep, body = c["queries"].partition("\n")
        m = re.search(r"(SELECT|RETURNING) ([^,]+), ([^,]+?)( FROM |;|$)", body)
        if m and "'" not in m.group(0) and "(" not in m.group(2) + m.group(3):
            body = body[:m.start()] + "%s %s /* surrogate key */, %s /* display name */\n%s" % (m.group(1), m.group(2), m.group(3), m.group(4).lstrip()) + body[m.end():]
            c = dict(c, queries=head + sep + body, style=c.get("style", "") + "+comments")
    return c


def run(tier, seed):
    return run_query_property(
        PROP, "judge_c02", "From Verif Require Import Judge.J02.", KNOWN,
        rule="random schemas and single annotated statements of the supported grammar (column lists, *, t.*, repeated stars, aliases, comma and JOIN from-lists, CTEs, derived tables, UNION, scalar sub-selects, aggregates, CASE/COALESCE/casts, INSERT/UPDATE/DELETE ... RETURNING); the row description of the source statement and of the re-parsed embedded SQL (Spec/PgScope.v) is compared with sqlc's result columns; every case distinct and non-trivial",
        assumptions=["Spec/PgScope.pg_describe stands in for PostgreSQL's row description (no server in the sandbox)",
                     "the parser is not modelled: source statement and embedded SQL are parsed by the real parser"],
        tier=tier, seed=seed, what="result columns differ in number or name from the row the statement returns",
        extra_args=sql_ast_arg, with_generate=True, second=(go_ret_expr, go_handle_c02), gen=gen_with_comments)
