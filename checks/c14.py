"""C14 — Migration files: rollback parts ignored, lexical order, split-invariant."""
import json
import random
from common import *

PROP = "C14"
HEADER = "From Verif Require Import Base.Str Base.Result Model.Migrations Judge.J14.\nOpen Scope string_scope. Open Scope list_scope. Open Scope N_scope.\n"

MARKERS = ["-- +goose Down", "-- +migrate Down", "---- create above / drop below ----", "-- migrate:down"]
NEAR = ["--+goose Down", " -- +goose Down", "-- +goose Up", "-- +goose down", "-- +migrate Up", "-- migrate:up",
        "--- create above / drop below ----", "-- migrate: down", "SELECT '-- +goose Down';", "/* -- +goose Down */",
        "-- +goose Downward and more", "-- migrate:down transaction:false", "-- +migrate Down notransaction"]
SQL = ["CREATE TABLE a (x int);", "CREATE TABLE b (y text NOT NULL);", "ALTER TABLE a ADD COLUMN z text;", "",
       "  ", "-- a comment", "DROP TABLE a;", "CREATE TYPE e AS ENUM ('u', 'v');", "-- +goose Up", "\t-- +goose Down",
       "/* block */", "SELECT 'café';", "-- +goose StatementBegin"]


def gen_text(rng, big=False):
    n = rng.randint(0, 9)
    lines = []
    for _ in range(n):
        r = rng.random()
        if r < 0.18:
            lines.append(rng.choice(MARKERS) + rng.choice(["", "", " ", " x"]))
        elif r < 0.38:
            lines.append(rng.choice(NEAR))
        else:
            lines.append(rng.choice(SQL))
    if big and lines:
        k = rng.randrange(len(lines))
        lines[k] = "-- " + "x" * rng.choice([65533, 65534, 70000])
    eol = rng.choice(["\n", "\n", "\n", "\r\n"])
    text = eol.join(lines)
    if rng.random() < 0.5:
        text += eol
    if rng.random() < 0.1:
        text += "\n\n"
    if rng.random() < 0.05:
        text = text.replace("\n", "\r", 1)
    return text


NAMES = ["001_a.sql", "002_b.sql", "10.sql", "2.sql", ".hidden.sql", "x.down.sql", "x.sql.bak", "readme.md",
         "a.SQL", "b.sql", "B.sql", "_c.sql", "down.sql", "y.up.sql", "z.down.sql.sql", ".sql", "q.sql~", "0.sql",
         "breakdown.sql", "x-down.sql", "a.DOWN.sql", "3_down.sql", "w.Down.sql"]


def gen_tree(rng):
    files, dirs, fsl = {}, [], []
    ndirs = rng.randint(0, 2)
    paths = []
    for d in range(ndirs):
        dn = rng.choice(["s", "migrations", "m.sql", ".hid", "db/schema"])
        if dn in dirs:
            continue
        dirs.append(dn)
        names = rng.sample(NAMES, rng.randint(0, 7))
        subdirs = []
        if rng.random() < 0.2:
            sd = rng.choice(["sub.sql", "subdir"])
            subdirs.append(sd)
            dirs.append(dn + "/" + sd)
        for nm in names:
            files[dn + "/" + nm] = ""
        listing = names + subdirs
        rng.shuffle(listing)
        fsl.append((dn, ("dir", listing)))
        for nm in names:
            fsl.append((dn + "/" + nm, ("file", "")))
        paths.append(dn)
    for _ in range(rng.randint(0, 3)):
        nm = rng.choice(NAMES + ["top/x.sql"])
        if nm not in files and nm not in dirs:
            files[nm] = ""
            fsl.append((nm, ("file", "")))
        if nm in files:
            paths.append(nm)
    if rng.random() < 0.15:
        paths.append(rng.choice(["missing.sql", "nodir"]))
    rng.shuffle(paths)
    if rng.random() < 0.2 and paths:
        paths.append(paths[0])
    return files, dirs, fsl, paths


def coq_entry(e):
    kind, v = e
    if kind == "file":
        return "(EFile %s)" % coqstr(v)
    return "(EDir %s)" % coqlist([coqstr(x) for x in v])


# --- split invariance through the whole of `sqlc generate` -------------------

def gen_history(rng):
    """Statement chunks (each a list of lines) that are valid in sequence."""
    chunks = []
    tables = []
    k = rng.randint(2, 7)
    if rng.random() < 0.3:
        # rotate / recreate patterns: the same statement text occurs twice in the history (so two files of a layout can be
        # byte-identical) with a rename, drop or alteration of the object in between
        for j in range(rng.randint(1, 2)):
            t = rng.choice(["events", "jobs", "audit_log"]) + ("" if j == 0 else "_%d" % j)
            create = "CREATE TABLE %s (id int, %s);" % (t, rng.choice(["payload text", "state text NOT NULL", "n bigint"]))
            shape = rng.choice(["rename", "rename_drop", "drop", "if_not_exists", "rename_col"])
            if shape == "rename":
                chunks += [[create], ["ALTER TABLE %s RENAME TO %s_archive;" % (t, t)], [create]]
            elif shape == "rename_drop":
                chunks += [[create], ["ALTER TABLE %s RENAME TO %s_old;" % (t, t)], ["DROP TABLE %s_old;" % t], [create]]
            elif shape == "drop":
                chunks += [[create], ["ALTER TABLE %s ADD COLUMN extra text;" % t], ["DROP TABLE %s;" % t], [create]]
            elif shape == "if_not_exists":
                c2 = create.replace("CREATE TABLE", "CREATE TABLE IF NOT EXISTS")
                chunks += [[c2], ["ALTER TABLE %s ADD COLUMN extra text;" % t], [c2]]
            else:
                add = "ALTER TABLE %s ADD COLUMN note text;" % t
                chunks += [[create], [add], ["ALTER TABLE %s RENAME COLUMN note TO remark;" % t], [add]]
        if rng.random() < 0.5:
            chunks.insert(rng.randrange(len(chunks) + 1), ["CREATE TYPE mood AS ENUM ('ok', 'sad');"])
        return chunks
    for i in range(k):
        r = rng.random()
        if r < 0.55 or not tables:
            t = "t%d" % len(tables)
            tables.append(t)
            cols = ", ".join("%s %s" % (c, rng.choice(["int", "text NOT NULL", "bigint", "text[]"]))
                             for c in rng.sample(["a", "b", "c", "d"], rng.randint(1, 3)))
            lines = ["CREATE TABLE %s (%s);" % (t, cols)]
        elif r < 0.8:
            t = rng.choice(tables)
            lines = ["ALTER TABLE %s" % t, "  ADD COLUMN n%d text;" % i]
        else:
            lines = ["CREATE TYPE e%d AS ENUM ('x', 'y');" % i]
        if rng.random() < 0.3:
            lines.insert(0, "-- step %d" % i)
        chunks.append(lines)
    return chunks


def layout_cases(rng):
    chunks = gen_history(rng)
    engine = "postgresql"
    if rng.random() < 0.25:
        # the MySQL parser cuts a file into statements itself: same history, MySQL spelling
        engine = "mysql"
        chunks, nt = [], 0
        for i_ in range(rng.randint(2, 6)):
            if nt == 0 or rng.random() < 0.6:
                chunks.append(["CREATE TABLE m%d (id int, %s);" % (nt, rng.choice(["a text", "b bigint NOT NULL", "c varchar(10)"]))])
                nt += 1
            else:
                chunks.append(["ALTER TABLE m%d ADD COLUMN x%d text;" % (rng.randrange(nt), i_)])
            if rng.random() < 0.2:
                chunks[-1].insert(0, "-- step %d" % i_)
    cfg = lambda schema: json.dumps({"version": "1", "packages": [
        {"path": "db", "engine": engine, "schema": schema, "queries": "q/query.sql"}]})
    q = "-- name: Ping :exec\nSELECT 1;\n"
    down = ["DROP TABLE IF EXISTS nothing;", "CREATE TABLE zz_down (a int);"]
    single = "\n".join(l for c in chunks for l in c) + "\n"
    if rng.random() < 0.3:
        # statements glued to the semicolon before them (no white space in between), where no comment line follows
        single = ""
        for c in chunks:
            text = "\n".join(c)
            single += text if (single.endswith(";") and not text.startswith("--") and rng.random() < 0.7) else ("\n" if single else "") + text
        single += "\n"
    base = {"op": "generate", "files": {"sqlc.json": cfg("schema.sql"), "schema.sql": single, "q/query.sql": q}}
    # cut into consecutive groups
    ncut = rng.randint(1, len(chunks))
    per_statement = rng.random() < 0.4
    if per_statement:
        ncut = len(chunks)          # one statement per file, no rollback parts: equal statements give byte-identical files
    cuts = sorted(rng.sample(range(1, len(chunks)), ncut - 1)) if len(chunks) > 1 else []
    groups, prev = [], 0
    for c in cuts + [len(chunks)]:
        groups.append(chunks[prev:c])
        prev = c
    style = rng.choice(["num", "pad", "date"])
    names = []
    for i in range(len(groups)):
        if style == "num":
            names.append("%d_m.sql" % (i + 1) if len(groups) < 10 else "%02d_m.sql" % (i + 1))
        elif style == "pad":
            names.append("%04d.sql" % (i * 10))
        else:
            names.append("2020010%d_x.up.sql" % (i + 1))
    marker = rng.choice(MARKERS)
    files_dir = {"sqlc.json": cfg("mig"), "q/query.sql": q}
    extra_names = {}
    for nm, g in zip(names, groups):
        body = "\n".join(l for c in g for l in c)
        r_ = 1.0 if per_statement else rng.random()
        if r_ < 0.5:
            body += "\n" + marker + "\n" + "\n".join(down)
        elif r_ < 0.7:
            # the migration is cut right before its marker: the next file (in order) STARTS with the marker line and has
            # no other comment line; everything in it is rollback and must be ignored
            rest = nm[:-4] + "_rest.sql"
            files_dir["mig/" + rest] = marker + "\n" + "\n".join(down) + rng.choice(["", "\n"])
            extra_names[nm] = rest
        files_dir["mig/" + nm] = body + ("\n" if per_statement else rng.choice(["", "\n"]))
    for decoy in rng.sample(["mig/0_x.down.sql", "mig/.0_hidden.sql", "mig/0_readme.md", "mig/zz.sql.bak", "mig/1_m.down.sql"], rng.randint(0, 3)):
        files_dir[decoy] = "CREATE TABLE decoy (a int);\n"
    as_dir = {"op": "generate", "files": files_dir}
    files_list = dict(files_dir)
    plist = []
    for nm in names:
        plist.append("mig/" + nm)
        if nm in extra_names:
            plist.append("mig/" + extra_names[nm])
    listed = set(p[4:] for p in plist)
    for decoy in [p for p in files_dir if p.startswith("mig/") and p[4:] not in listed]:
        plist.insert(rng.randrange(len(plist) + 1), decoy)
    files_list["sqlc.json"] = cfg(plist)
    as_list = {"op": "generate", "files": files_list}
    # the later part of the history in a sub-directory, listed after its parent directory (Glob does not descend, so the
    # parent does not cover it); decoys stay in the parent
    k = rng.randint(1, len(names)) if len(names) > 1 else len(names)
    early = set(names[:k]) | set(extra_names.get(nm) for nm in names[:k])
    files_nested = {}
    for pth, body in files_dir.items():
        if pth.startswith("mig/") and pth[4:] not in early and (pth[4:] in names or pth[4:] in extra_names.values()):
            files_nested["mig/later/" + pth[4:]] = body
        else:
            files_nested[pth] = body
    sub = rng.choice(["mig/later", "mig/later/"])
    files_nested["sqlc.json"] = cfg(["mig", sub] if k < len(names) else ["mig"])
    as_nested = {"op": "generate", "files": files_nested}
    return chunks, [base, as_dir, as_list, as_nested]


def run(tier, seed):
    rep = Report(PROP, tier, seed)
    ok, info = prep(PROP)
    ob, dis = proof_gate(rep, PROP, ok, info)
    rng = random.Random(seed)
    n_text, n_tree, n_lay = (400, 300, 120) if tier == "quick" else (15000, 12000, 5000)

    # corpus first
    corpus = []
    cpath = os.path.join(VERIF, "corpus", "C14.json")
    if os.path.exists(cpath):
        corpus = json.load(open(cpath))
    texts = [c["text"] for c in corpus if c.get("kind") == "text"]
    texts += [gen_text(rng, big=(i % 130 == 7)) for i in range(n_text)]
    trees = [gen_tree(rng) for _ in range(n_tree)]
    lays = [layout_cases(rng) for _ in range(n_lay)]

    jobs = [{"op": "rollback", "text": t} for t in texts]
    jobs += [{"op": "glob", "files": f, "dirs": d, "paths": p} for (f, d, fsl, p) in trees]
    for chunks, js in lays:
        jobs += js
    res = run_harness(jobs)
    r_text = res[:len(texts)]
    r_tree = res[len(texts):len(texts) + len(trees)]
    r_lay = res[len(texts) + len(trees):]

    exprs = []
    for t, r in zip(texts, r_text):
        if "out" not in r:
            exprs.append("[1; 0; 0; 0]")
            continue
        exprs.append("judge_strip %s %s" % (coqstr(t), coqstr(r["out"])))
    for (f, d, fsl, p), r in zip(trees, r_tree):
        if "err" in r:
            o = '(Err "")'
        elif "out" in r:
            o = "(Ok %s)" % coqlist([coqstr(x) for x in r["out"]])
        else:
            o = '(Panic "")'
        fs = coqlist(["(%s, %s)" % (coqstr(k), coq_entry(e)) for k, e in fsl])
        exprs.append("judge_glob %s %s %s" % (fs, coqlist([coqstr(x) for x in p]), o))
    verdicts = coq_eval(HEADER, exprs, tag="c14")

    for i, (t, r) in enumerate(zip(texts, r_text)):
        v = verdicts[i]
        has_marker = any(m in t for m in MARKERS)
        rep.case(("text", t), nontrivial=has_marker, sample={"kind": "rollback", "text": t[:200], "out": r.get("out", "")[:200]} if i % 97 == 0 else None)
        rep.count("rollback:" + ("marker" if has_marker else "nomarker"))
        if len(t) > 65000:
            rep.count("rollback:longline")
        if v[2] == 0:
            rep.violation("RemoveRollbackStatements output differs from 'lines before the first marker'",
                          {"op": "rollback", "text": t, "impl_out": r.get("out"), "panic": r.get("panic")})
        elif v[3] == 0:
            rep.violation("correspondence corr:C14:remove_rollback broken (model != implementation) and no property failure on this input",
                          {"op": "rollback", "text": t, "impl_out": r.get("out")}, no_input=True)
    off = len(texts)
    for i, ((f, d, fsl, p), r) in enumerate(zip(trees, r_tree)):
        v = verdicts[off + i]
        rep.case(("tree", sorted(f), d, p), nontrivial=len(f) > 1, sample={"kind": "glob", "files": sorted(f), "paths": p, "out": r.get("out", r.get("err"))} if i % 83 == 0 else None)
        rep.count("glob:" + ("err" if "err" in r else "ok"))
        if v[2] == 0:
            rep.violation("sqlpath.Glob selection/order differs from the specification",
                          {"op": "glob", "files": sorted(f), "dirs": d, "paths": p, "impl": r})
        elif v[3] == 0:
            rep.violation("correspondence corr:C14:glob broken (model != implementation)",
                          {"op": "glob", "files": sorted(f), "dirs": d, "paths": p, "impl": r}, no_input=True)
    for i, (chunks, js) in enumerate(lays):
        rs = r_lay[4 * i:4 * i + 4]
        rep.case(("layout", json.dumps(js[1]["files"], sort_keys=True)), nontrivial=len(js[1]["files"]) > 3,
                 sample={"kind": "layout", "dir_files": sorted(js[1]["files"]), "ok": [x.get("ok") for x in rs]} if i % 41 == 0 else None)
        rep.count("layout:files=%d" % (len(js[1]["files"]) - 2))
        outs = []
        for x in rs:
            if x.get("ok"):
                outs.append(x["out"].get("db/models.go"))
            else:
                outs.append("ERR:" + x.get("stderr", "") + str(x.get("panic", "")))
        if not rs[0].get("ok"):
            rep.count("layout:base-rejected")
        if outs[1] != outs[0] or outs[2] != outs[0] or outs[3] != outs[0]:
            which = "directory" if outs[1] != outs[0] else ("path list" if outs[2] != outs[0] else "directory followed by its sub-directory")
            rep.violation("split invariance: the same history laid out as a %s gives different models.go" % which,
                          {"op": "generate x3", "single": js[0]["files"], "dir": js[1]["files"], "list": js[2]["files"], "nested": js[3]["files"], "models_nested": outs[3],
                           "models_single": outs[0], "models_dir": outs[1], "models_list": outs[2]})
    if getattr(rep, "proof_broken", None) and not rep.violations:
        rep.violation("proof obligation no longer checks: " + rep.proof_broken, {"theorem_file": "coq/theories/Props/C14.v", "detail": info}, no_input=True)
    return rep.finish("proof", ob, dis, checker_cmd(PROP),
                      rule="random migration texts (4 marker dialects, near-miss markers, CRLF, long lines), random directory trees with decoys, and DDL histories laid out as one file / a directory / a path list / a directory followed by its sub-directory; non-trivial = contains a marker, >1 file, or >1 migration file; distinct by content hash",
                      assumptions=["the engine's parser is compositional at statement boundaries (hypothesis of C14_split_*, exercised by the layout cases through the real parser)",
                                   "file system modelled as a function path -> file | directory listing"])
