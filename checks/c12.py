"""C12 — Generation is all-or-nothing with a truthful exit status."""
import itertools
import json
import random
import shutil
import subprocess
import tempfile
from concurrent.futures import ThreadPoolExecutor
from common import *

PROP = "C12"
HEADER = "From Verif Require Import Model.Driver Judge.J12.\nOpen Scope list_scope. Open Scope N_scope.\n"

FAULTS = ["none", "bad_schema", "bad_query", "gen_fail", "gen_fail_models", "missing_path", "dir_entry", "empty_queries", "syntax_error",
          "bad_query_first_file", "query_syntax_first_file", "bad_schema_first_file", "bad_schema_if_exists"]
OUTCOME = {"none": 0, "bad_schema": 1, "bad_query": 1, "gen_fail": 2, "gen_fail_models": 2, "missing_path": 1, "dir_entry": 1, "empty_queries": 1, "syntax_error": 1,
           "bad_query_first_file": 1, "query_syntax_first_file": 1, "bad_schema_first_file": 1, "bad_schema_if_exists": 1}
CONFIG_FAULTS = ["ok", "ok", "ok", "ok", "no_version", "bad_json", "unknown_field", "no_packages", "both_files", "missing"]


def make_package(i, fault, lang="go", engine="postgresql"):
    """files of package i (relative) and its v1 package entry"""
    d = "p%d" % i
    files = {}
    ph = "$1" if engine == "postgresql" else "?"
    schema = "CREATE TABLE t%d (id int PRIMARY KEY, name text);\n" % i
    query = "-- name: Get%d :one\nSELECT id, name FROM t%d WHERE id = %s;\n\n-- name: Del%d :exec\nDELETE FROM t%d WHERE id = %s;\n" % (i, i, ph, i, i, ph)
    pkg = {"path": "out/" + d, "name": "db%d" % i, "engine": engine, "schema": d + "/schema", "queries": d + "/queries"}
    if fault == "bad_schema":
        schema += "ALTER TABLE nosuch ADD COLUMN a int;\n"
    if fault == "bad_schema_if_exists" and engine == "postgresql":
        # IF EXISTS covers the TABLE, not the column: the table exists, the column does not
        schema += "ALTER TABLE IF EXISTS t%d DROP COLUMN no_such_column;\n" % i
    elif fault == "bad_schema_if_exists":
        schema += "ALTER TABLE t%d DROP COLUMN no_such_column;\n" % i
    if fault == "syntax_error":
        schema += "CREATE TABLE (;\n"
    if fault == "bad_query":
        query += "-- name: Bad%d :one\nSELECT nosuch FROM t%d;\n" % (i, i)
    if fault == "gen_fail":
        pkg["name"] = "my-db"          # not a Go identifier: go/format rejects the file
    if fault == "gen_fail_models":
        # only models.go fails to render: a table no query touches, with a column name that is not a Go identifier
        schema += ('CREATE TABLE odd%d (id int, "logged at" timestamptz);\n' if engine == "postgresql" else 'CREATE TABLE odd%d (id int, `logged at` datetime);\n') % i
    if fault == "empty_queries":
        query = "-- nothing here\n"
    files[d + "/schema/001.sql"] = schema
    files[d + "/queries/q.sql"] = query
    # a fault in a file that is NOT the last one of its directory, followed by a clean file
    if fault == "bad_query_first_file":
        files[d + "/queries/a_first.sql"] = "-- name: Bad%d :one\nSELECT nosuch FROM t%d;\n" % (i, i)
    if fault == "query_syntax_first_file":
        files[d + "/queries/a_first.sql"] = "-- name: Bad%d :one\nSELECT FROM WHERE;\n" % i
    if fault == "bad_schema_first_file":
        files[d + "/schema/000.sql"] = "ALTER TABLE nosuch ADD COLUMN a int;\n"
    dirs = []
    if fault == "missing_path":
        pkg["schema"] = d + "/nosuch"
    if fault == "dir_entry":
        dirs.append(d + "/queries/zz.sql")
    return pkg, files, dirs


def make_case(rng, npk, faults, cfault):
    pkgs, files, dirs = [], {}, []
    for i, f in enumerate(faults):
        p, fs, ds = make_package(i, f, engine=rng.choice(["postgresql", "postgresql", "mysql"]))
        pkgs.append(p)
        files.update(fs)
        dirs += ds
    cfg = {"version": "1", "packages": pkgs}
    style = rng.choice(["json", "yaml"])
    name = "sqlc.json" if style == "json" else "sqlc.yaml"
    text = json.dumps(cfg, indent=1)      # JSON is YAML
    if cfault == "no_version":
        del cfg["version"]
        text = json.dumps(cfg)
    elif cfault == "bad_json":
        text = text[:len(text) // 2]
    elif cfault == "unknown_field":
        cfg["bogus"] = 1
        text = json.dumps(cfg)
    elif cfault == "no_packages":
        text = json.dumps({"version": "1", "packages": []})
    if cfault == "both_files":
        files["sqlc.json"] = text
        files["sqlc.yaml"] = text
    elif cfault != "missing":
        files[name] = text
    return {"files": files, "dirs": dirs, "faults": list(faults), "cfault": cfault}

V2_FAULTS = ["go_no_out", "kotlin_no_out", "kotlin_no_package", "no_engine", "bad_engine", "bad_override", "bad_query"]


def make_v2_case(rng, blocks):
    """version-2 configuration; blocks = [(targets, fault)], targets a non-empty sub-list of ["go", "kotlin"] in the order
    they are written in the block's gen section.  A fault in ANY target of ANY block must stop the whole run."""
    sql, files, dirs, per_target, cfault = [], {}, [], [], "ok"
    for i, (targets, fault) in enumerate(blocks):
        p, fs, ds = make_package(i, "bad_query" if fault == "bad_query" else "none")
        files.update(fs)
        gen = {}
        for t in targets:
            gen[t] = {"out": "out/p%d%s" % (i, t), "package": ("db%d" % i) if t == "go" else "com.example.p%d" % i}
        blk = {"engine": "postgresql", "schema": p["schema"], "queries": p["queries"], "gen": gen}
        if fault == "go_no_out" and "go" in gen:
            del gen["go"]["out"]; cfault = "v2:" + fault
        elif fault == "kotlin_no_out" and "kotlin" in gen:
            del gen["kotlin"]["out"]; cfault = "v2:" + fault
        elif fault == "kotlin_no_package" and "kotlin" in gen:
            del gen["kotlin"]["package"]; cfault = "v2:" + fault
        elif fault == "no_engine":
            del blk["engine"]; cfault = "v2:" + fault
        elif fault == "bad_engine":
            blk["engine"] = "oracle"; cfault = "v2:" + fault
        elif fault == "bad_override" and "go" in gen:
            gen["go"]["overrides"] = [{"go_type": "example.com/x.T", "db_type": "uuid", "column": "t%d.id" % i}]; cfault = "v2:" + fault
        for t in targets:
            per_target.append("bad_query" if fault == "bad_query" else "none")
        sql.append(blk)
    style = rng.choice(["json", "yaml"])
    files["sqlc.json" if style == "json" else "sqlc.yaml"] = json.dumps({"version": "2", "sql": sql}, indent=1)
    return {"files": files, "dirs": dirs, "faults": per_target, "cfault": cfault, "v2": [[list(t), f] for t, f in blocks]}


def snapshot(root):
    out = {}
    for dp, dn, fn in os.walk(root):
        for f in fn:
            p = os.path.join(dp, f)
            out[os.path.relpath(p, root)] = open(p, "rb").read()
    return out


def run_binary(case):
    res = {}
    for cmd in ("generate", "compile"):
        d = tempfile.mkdtemp(prefix="c12", dir=os.path.join(BUILD, "tmp"))
        try:
            for sub in case["dirs"]:
                os.makedirs(os.path.join(d, sub), exist_ok=True)
            for rel, content in case["files"].items():
                p = os.path.join(d, rel)
                os.makedirs(os.path.dirname(p), exist_ok=True)
                open(p, "w").write(content)
            before = snapshot(d)
            try:
                p = subprocess.run([SQLC_BIN, cmd], cwd=d, stdout=subprocess.PIPE, stderr=subprocess.PIPE, timeout=60, text=True, errors="replace")
                rc, err, out = p.returncode, p.stderr, p.stdout
            except subprocess.TimeoutExpired:
                rc, err, out = -9, "TIMEOUT", ""
            after = snapshot(d)
            new = sorted(k for k in after if k not in before)
            changed = sorted(k for k in before if after.get(k) != before[k])
            res[cmd] = {"rc": rc, "stderr": err.replace(d, "<dir>")[:2000], "stdout": out[:500], "new": new, "changed": changed}
        finally:
            shutil.rmtree(d, ignore_errors=True)
    return res


def run_sequences(rep, rng, tier):
    """`sqlc generate` run again and again over ONE output tree while the inputs change (queries and columns come and go, a
    fault appears and is repaired): after every successful run the files of every output directory are byte for byte those
    of a run of the same inputs into an empty tree; after a failing run the tree is what it was."""
    def project(step):
        cols = ["id int PRIMARY KEY", "name text"] + (["bio text NOT NULL", "born timestamptz"] if step["wide"] else [])
        schema = "CREATE TABLE t (%s);\n" % ", ".join(cols)
        qs = ["-- name: Get :one\nSELECT * FROM t WHERE id = $1;\n"]
        if step["many"]:
            qs += ["-- name: List :many\nSELECT id, name FROM t ORDER BY name;\n", "-- name: Del :exec\nDELETE FROM t WHERE id = $1;\n",
                   "-- name: Rename :one\nUPDATE t SET name = $2 WHERE id = $1 RETURNING *;\n"]
        if step["bad"]:
            qs += ["-- name: Bad :one\nSELECT nosuch FROM t;\n"]
        gen = {"go": {"package": "db", "out": "out/go", "emit_interface": step["iface"]}}
        if step["kotlin"]:
            gen["kotlin"] = {"package": "com.example", "out": "out/kt"}
        cfg = {"version": "2", "sql": [{"engine": "postgresql", "schema": "schema.sql", "queries": "query.sql", "gen": gen}]}
        return {"sqlc.json": json.dumps(cfg), "schema.sql": schema, "query.sql": "\n".join(qs)}

    def write(d, files):
        for rel, content in files.items():
            open(os.path.join(d, rel), "w").write(content)

    def gen_in(d):
        p_ = subprocess.run([SQLC_BIN, "generate"], cwd=d, stdout=subprocess.PIPE, stderr=subprocess.PIPE, timeout=60, text=True, errors="replace")
        return p_.returncode, p_.stderr

    outs = lambda snap: {k: v for k, v in snap.items() if k.startswith("out" + os.sep)}
    for _ in range(12 if tier == "quick" else 150):
        steps = [{"wide": rng.random() < 0.5, "many": rng.random() < 0.5, "bad": rng.random() < 0.2, "iface": rng.random() < 0.4, "kotlin": rng.random() < 0.4}
                 for _ in range(rng.randint(2, 4))]
        steps[0]["wide"], steps[0]["many"] = True, True          # start big, so that later runs shrink files
        d = tempfile.mkdtemp(prefix="c12seq", dir=os.path.join(BUILD, "tmp"))
        try:
            prev = {}
            for k_, st in enumerate(steps):
                files = project(st)
                write(d, files)
                rc, err = gen_in(d)
                now = outs(snapshot(d))
                f = tempfile.mkdtemp(prefix="c12fresh", dir=os.path.join(BUILD, "tmp"))
                try:
                    write(f, files)
                    frc, ferr = gen_in(f)
                    fresh = outs(snapshot(f))
                finally:
                    shutil.rmtree(f, ignore_errors=True)
                rep.case(("sequence", json.dumps(steps[:k_ + 1], sort_keys=True)), nontrivial=k_ > 0)
                rep.count("sequence:step-%s" % ("fails" if frc else "ok"))
                replay = {"steps": steps[:k_ + 1], "rc": rc, "stderr": err[:500]}
                if (rc == 0) != (frc == 0):
                    rep.violation("run %d of a sequence over one output tree exits %d, the same inputs in an empty tree exit %d" % (k_ + 1, rc, frc), replay)
                    break
                if rc != 0:
                    if now != prev:
                        rep.violation("a failing run changed the output tree: %s" % sorted(k for k in set(now) | set(prev) if now.get(k) != prev.get(k)), replay)
                        break
                else:
                    # files of earlier runs that this configuration no longer produces may stay behind; every file it does
                    # produce must be exactly the fresh one
                    bad = sorted(k for k in fresh if now.get(k) != fresh[k])
                    if bad:
                        rep.violation("after run %d of a sequence over one output tree %s differ(s) from what the same inputs give in an empty tree (stale content)" % (k_ + 1, bad),
                                      dict(replay, differs=bad))
                        break
                prev = now
        finally:
            shutil.rmtree(d, ignore_errors=True)


def run(tier, seed):
    rep = Report(PROP, tier, seed)
    ok, info = prep(PROP)
    ob, dis = proof_gate(rep, PROP, ok, info)
    build_sqlc_binary()
    os.makedirs(os.path.join(BUILD, "tmp"), exist_ok=True)
    rng = random.Random(seed)
    cases = []
    if tier == "quick":
        for f in FAULTS:                      # every fault kind alone, and next to a good package on either side
            cases.append(make_case(rng, 1, [f], "ok"))
            cases.append(make_case(rng, 2, [f, "none"], "ok"))
            cases.append(make_case(rng, 2, ["none", f], "ok"))
        for cf in set(CONFIG_FAULTS):
            cases.append(make_case(rng, 2, ["none", "none"], cf))
        for _ in range(90):
            n = rng.randint(1, 4)
            cases.append(make_case(rng, n, [rng.choice(FAULTS + ["none"] * 6) for _ in range(n)], rng.choice(CONFIG_FAULTS)))
    else:
        for n in (1, 2, 3):
            for faults in itertools.product(FAULTS, repeat=n):
                cases.append(make_case(rng, n, list(faults), "ok"))
        for cf in set(CONFIG_FAULTS):
            for n in (1, 2, 3):
                cases.append(make_case(rng, n, ["none"] * n, cf))
        for _ in range(400):                  # four packages: a sample of the placements
            cases.append(make_case(rng, 4, [rng.choice(FAULTS + ["none"] * 4) for _ in range(4)], rng.choice(CONFIG_FAULTS)))
        for _ in range(400):
            cases.append(make_case(rng, 4, [rng.choice(FAULTS) for _ in range(4)], rng.choice(CONFIG_FAULTS)))
    # version 2: blocks with one or two targets, a fault in the first / second target of the first / second block
    tsets = [["go"], ["kotlin"], ["go", "kotlin"], ["kotlin", "go"]]
    for ts in tsets:
        cases.append(make_v2_case(rng, [(ts, "none")]))
        cases.append(make_v2_case(rng, [(["go"], "none"), (ts, "none")]))
        for f in V2_FAULTS:
            cases.append(make_v2_case(rng, [(ts, f)]))
            cases.append(make_v2_case(rng, [(["go"], "none"), (ts, f)]))
            cases.append(make_v2_case(rng, [(ts, f), (["go", "kotlin"], "none")]))
    with ThreadPoolExecutor(max_workers=NCPU) as ex:
        results = list(ex.map(run_binary, cases))
    exprs = []
    for c in cases:
        exprs.append("predict %s %s" % (coqbool(c["cfault"] == "ok"), coqlist([str(OUTCOME[f]) for f in c["faults"]])))
    preds = coq_eval(HEADER, exprs, tag="c12")
    for c, r, p in zip(cases, results, preds):
        status, has_out, _ = p
        any_fault = c["cfault"] != "ok" or any(f != "none" for f in c["faults"])
        rep.case((tuple(c["faults"]), c["cfault"], tuple(sorted(c["files"]))), nontrivial=any_fault or len(c["faults"]) > 1,
                 sample={"faults": c["faults"], "config": c["cfault"], "generate": {k: r["generate"][k] for k in ("rc", "new")}} if len(rep.samples) < 5 else None)
        rep.count("packages=%d" % len(c["faults"]))
        for f in c["faults"]:
            rep.count("fault:" + f)
        rep.count("config:" + c["cfault"])
        if "v2" in c:
            rep.count("v2-blocks=%d" % len(c["v2"]))
        g, k = r["generate"], r["compile"]
        replay = {"faults": c["faults"], "config_fault": c["cfault"], "files": c["files"], "dirs": c["dirs"], "observed": r, "v2_blocks": c.get("v2")}
        for name, o in (("generate", g), ("compile", k)):
            if o["rc"] not in (0, 1) or "panic:" in o["stderr"] or "goroutine " in o["stderr"]:
                rep.violation("sqlc %s crashes or hangs (status %s)" % (name, o["rc"]), replay, klass="unknown_engine_panic" if "unknown engine" in o["stderr"] else None)
        # the property, directly on the binary
        if any_fault:
            if g["rc"] == 0 or not g["stderr"].strip() or g["new"] or g["changed"]:
                rep.violation("a configuration with a fault exits %d, writes %d files, stderr %r" % (g["rc"], len(g["new"]), g["stderr"][:60]), replay)
        else:
            want = sum(1 for _ in c["faults"]) * 3     # db.go, models.go, q.sql.go per package
            if g["rc"] != 0 or g["stderr"].strip() or len(g["new"]) != want:
                rep.violation("a fault-free configuration exits %d with stderr %r and writes %d files (expected %d)" % (g["rc"], g["stderr"][:60], len(g["new"]), want), replay)
        if k["new"] or k["changed"]:
            rep.violation("sqlc compile writes files", replay)
        if (k["rc"] == 0) != (g["rc"] == 0) or k["stderr"] != g["stderr"]:
            rep.violation("sqlc compile reports a different status / diagnostics than generate", replay)
        # correspondence with the loop model
        if (g["rc"] != 0) != (status != 0) or bool(g["new"]) != bool(has_out):
            rep.violation("correspondence corr:C12:driver broken: the model predicts status %d output %d, the binary exits %d and writes %d files"
                          % (status, has_out, g["rc"], len(g["new"])), replay, no_input=True)
    rep.extra["exhaustive"] = tier != "quick"
    run_sequences(rep, rng, tier)
    if getattr(rep, "proof_broken", None) and not rep.violations:
        rep.violation("proof obligation no longer checks: " + rep.proof_broken, {"theorem_file": "coq/theories/Props/C12.v", "detail": info}, no_input=True)
    return rep.finish("proof", ob, dis, checker_cmd(PROP),
                      rule="multi-package configurations (1-4 packages, postgresql/mysql, JSON/YAML config) with every placement of 12 fault kinds (bad schema statement, syntax error, bad query, each also in a file that is not the last of its directory, code-generation failure of the whole package or of models.go alone, missing path, directory-typed entry, empty query set; plus 6 config faults) run through the real `sqlc generate` and `sqlc compile` binaries in scratch directories: exit status, stderr, files created/modified; thorough = all placements for 1-3 packages; sequences of 2-4 runs over one output tree while the inputs grow, shrink and break; non-trivial = a fault or more than one package",
                      assumptions=["process exit status and file-system effects are observed on the binary, not proved",
                                   "per-package behaviour is abstracted to ParseFail / GenFail / Good in the loop model"])
