"""Shared by the query properties (C02-C07, C10, C17, C18, C20): schema and query
generators, conversion of the parser's AST dump / sqlc's Query records into
Gallina terms."""
import json
import re
from common import *

HEADER = ("From Verif Require Import Model.Compile Judge.JQ.\n"
          "Open Scope string_scope. Open Scope list_scope. Open Scope Z_scope.\n")

_walk_tbl = None


def walk_table():
    global _walk_tbl
    if _walk_tbl is None:
        src = open(os.path.join(COQDIR, "theories", "Gen", "WalkOrder.v")).read()
        body = src[src.index("Definition walk_fields"):src.index("Definition apply_fields")]
        _walk_tbl = {}
        for m in re.finditer(r'\("([^"]+)", \[([^\]]*)\]\)', body):
            _walk_tbl[m.group(1)] = re.findall(r'"([^"]*)"', m.group(2))
    return _walk_tbl


def node_coq(n):
    """AST dump (harness dumpNode) -> Gallina [node]; children ordered as walk.go visits them"""
    if n is None:
        return "Nil"
    if n.get("k") == "List":
        return "(NList %s)" % coqlist([node_coq(x) for x in n.get("items", [])])
    k = n["k"]
    order = walk_table().get(k)
    kids = list(n.get("c", {}).items())
    if order is not None:
        kids.sort(key=lambda kv: order.index(kv[0]) if kv[0] in order else 10**6)
    s = coqlist(["(%s, %s)" % (coqstr(a), coqstr(b)) for a, b in sorted(n.get("s", {}).items())])
    i = coqlist(["(%s, %s)" % (coqstr(a), "(%d)%%Z" % b) for a, b in sorted(n.get("i", {}).items())])
    c = coqlist(["(%s, %s)" % (coqstr(a), node_coq(b)) for a, b in kids])
    return "(Node %s %s %s %s)" % (coqstr(k), s, i, c)


def node_kinds(n, acc=None):
    acc = set() if acc is None else acc
    if n is None:
        return acc
    acc.add(n.get("k"))
    for x in n.get("items", []):
        node_kinds(x, acc)
    for x in n.get("c", {}).values():
        node_kinds(x, acc)
    return acc


def catalog_coq(cat):
    schemas = []
    for s in cat:
        tabs = []
        for t in s["tables"]:
            cols = ["(mkCol %s (mkQ %s %s) %s %s %s)" % (coqstr(c["name"]), coqstr(c["type_schema"]), coqstr(c["type_name"]),
                                                      coqbool(c["notnull"]), coqbool(c["array"]), coqstr(c["comment"])) for c in t["cols"]]
            tabs.append("(mkTab %s %s %s)" % (coqstr(t["name"]), coqlist(cols), coqstr(t["comment"])))
        tys = []
        for ty in s["types"]:
            if ty["kind"] == "enum":
                tys.append("(Enum %s %s %s)" % (coqstr(ty["name"]), coqlist([coqstr(v) for v in ty["vals"]]), coqstr(ty["comment"])))
            else:
                tys.append("(Composite %s %s)" % (coqstr(ty["name"]), coqstr(ty["comment"])))
        schemas.append("(mkSch %s %s %s %s)" % (coqstr(s["name"]), coqlist(tabs), coqlist(tys), coqstr(s["comment"])))
    return '(mkCat "public" %s)' % coqlist(schemas)


def funcs_coq(fl):
    out = []
    for f in fl:
        args = ["(mkFA %s (mkQ %s %s) %s %s)" % (coqstr(a["name"]), coqstr(a["type_schema"]), coqstr(a["type_name"]),
                                               coqbool(a["default"]), coqbool(a["variadic"])) for a in f["args"]]
        out.append("(mkFS %s %s %s (mkQ %s %s))" % (coqstr(f["schema"]), coqstr(f["name"]), coqlist(args),
                                                   coqstr(f["ret_schema"]), coqstr(f["ret_name"])))
    return coqlist(out)


def qcol_coq(c):
    if c is None:
        return "None"
    t = c.get("table")
    tc = "None" if t is None else "(Some (mkTN %s %s %s))" % (coqstr(t["catalog"]), coqstr(t["schema"]), coqstr(t["name"]))
    return "(Some (mkQC %s %s %s %s %s %s))" % (coqstr(c["name"]), coqstr(c["datatype"]), coqbool(c["notnull"]),
                                               coqbool(c["array"]), coqstr(c.get("scope", "")), tc)


def query_coq(q):
    params = ["(mkP (%d)%%Z %s)" % (p["number"], qcol_coq(p["column"])) for p in q["params"]]
    cols = [qcol_coq(c)[6:-1] for c in q["columns"]]   # strip "(Some " ... ")"
    return "(mkQuery %s %s %s %s %s %s)" % (coqstr(q["name"]), coqstr(q["cmd"]), coqstr(q["sql"]),
                                           coqlist([coqstr(x) for x in q["comments"]]), coqlist(params), coqlist(cols))


def impl_outcome_coq(r):
    """single-statement query file: what sqlc made of it"""
    if "panic" in r:
        return '(Panic "")'
    if r.get("ok"):
        qs = r["queries"]
        if len(qs) == 1:
            return "(Ok (Some %s))" % query_coq(qs[0])
        return None
    if r.get("stage") == "queries":
        errs = r.get("errs", [])
        if len(errs) == 1 and "no queries contained" in errs[0].get("msg", ""):
            return "(Ok None)"
        return '(Err "")'
    return None


# ---------------------------------------------------------------------------
# schema + query generators (PostgreSQL)
# ---------------------------------------------------------------------------

FUNCS = ["count", "lower", "upper", "length", "max", "min", "sum", "now", "abs", "concat", "coalesce", "generate_series",
         "substring", "nullif", "random", "md5", "unknownfn", "pg_advisory_lock", "to_char", "date_trunc", "array_agg", "plus", "round"]

COLTYPES = ["int", "bigint", "text", "text NOT NULL", "int NOT NULL", "boolean", "text[]", "uuid", "timestamptz NOT NULL", "status", "numeric",
            "int[]", "text[] NOT NULL", "status[]", "status NOT NULL"]
# "position" is a keyword that needs no quotes as a table name or alias (col_name keyword)
TABLES = ["authors", "books", "t", "u", "orders", '"order"', '"user"', "s1.items", "position"]
COLNAMES = ["id", "name", "bio", "author_id", "title", "tags", "created_at", '"order"', '"select"', "status", "n", "a", "b"]


def uq(x):
    return x.strip('"')


class Schema:
    def __init__(self, rng):
        self.rng = rng
        self.tables = {}   # sql name -> [col sql names]
        k = rng.randint(1, 3)
        names = rng.sample(TABLES, k)
        for t in names:
            cols = ["id"] + rng.sample(COLNAMES[1:], rng.randint(1, 4))
            self.tables[t] = cols
        self.types = {}
        lines = ["CREATE TYPE status AS ENUM ('open', 'closed');"]
        if any(t.startswith("s1.") for t in names):
            lines.insert(0, "CREATE SCHEMA s1;")
            if rng.random() < 0.5:
                # a type of the same name next to the table: an unqualified `status` still means public.status
                lines.insert(1, "CREATE TYPE s1.status AS ENUM ('draft', 'sent');")
        for t, cols in self.tables.items():
            defs = []
            for c in cols:
                ty = "bigserial PRIMARY KEY" if c == "id" and rng.random() < 0.5 else rng.choice(COLTYPES)
                self.types[(t, c)] = ty
                defs.append("%s %s" % (c, ty))
            lines.append("CREATE TABLE %s (%s);" % (t, ", ".join(defs)))
        if rng.random() < 0.3:
            t = rng.choice(list(self.tables))
            nc = rng.choice([c for c in COLNAMES if c not in self.tables[t]] or ["zz"])
            lines.append("ALTER TABLE %s ADD COLUMN %s text;" % (t, nc))
            self.tables[t].append(nc)
        if rng.random() < 0.12:
            cands = [t for t in self.tables if "." not in t]
            if cands:
                t = rng.choice(cands)
                lines.append("CREATE SCHEMA archive;")
                if rng.random() < 0.5:
                    lines.append("CREATE TYPE archive.status AS ENUM ('kept', 'purged');")
                lines.append("ALTER TABLE %s SET SCHEMA archive;" % t)
                cols = self.tables.pop(t)
                self.tables["archive." + t] = cols
                for c in cols:
                    self.types[("archive." + t, c)] = self.types.get((t, c), "text")
                if rng.random() < 0.5:
                    lines.append("CREATE TABLE %s (%s);" % (t, ", ".join("%s %s" % (c, self.types.get((t, c), "text").replace(" PRIMARY KEY", "")) for c in cols)))
                    self.tables[t] = list(cols)
        self.sql = "\n".join(lines) + "\n"


class QGen:
    """random statements of the supported grammar over a Schema; returns SQL text"""

    def __init__(self, rng, schema, named=None, corrupt=0.0):
        self.rng, self.s = rng, schema
        self.nparam = 0
        self.style = named if named is not None else rng.choice(["pos", "pos", "pos", "arg", "at", "none"])
        self.corrupt = corrupt
        self.names_used = []

    def ph(self):
        r = self.rng
        if self.style == "none":
            return r.choice(["1", "'x'", "NULL"])
        if self.style == "pos":
            if self.nparam and r.random() < 0.15:
                return "$%d" % r.randint(1, self.nparam)
            self.nparam += 1
            return "$%d" % self.nparam
        nm = r.choice(self.names_used) if self.names_used and r.random() < 0.2 else r.choice(["x", "y", "val", "lim", "the_id", "q"])
        self.names_used.append(nm)
        if self.style == "arg":
            # the function name is an identifier: the parser folds its case, so every spelling of it is the same call
            return r.choice(["sqlc.arg(%s)", "sqlc.arg('%s')", "sqlc.arg(%s)", "sqlc.arg(%s)", "SQLC.ARG(%s)", "Sqlc.Arg('%s')"]) % nm
        return "@" + nm + (r.choice(["", "", "::int", "::text"]))

    def from_list(self, depth=0):
        """returns (sql, [(visible name, table sql name or None)])"""
        r = self.rng
        tabs = list(self.s.tables)
        k = r.choice([1, 1, 1, 2, 2, 3])
        items, vis = [], []
        aliases = ["a", "b", "c", "x", '"order"', "t", "position"]
        for i in range(k):
            t = r.choice(tabs)
            if self.corrupt and r.random() < self.corrupt:
                t = r.choice(["missing", "authorz", "s1.nosuch", "nosuch.t"])
            kind = r.random()
            if kind < 0.12 and depth < 2:
                sub, _ = self.select(depth + 1, simple=True)
                al = r.choice(aliases)
                items.append("(%s) %s%s" % (sub, r.choice(["", "AS "]), al))
                vis.append((al, None))
            else:
                if r.random() < 0.45:
                    al = r.choice(aliases)
                    items.append("%s %s%s" % (t, r.choice(["", "AS "]), al))
                    vis.append((al, t))
                else:
                    items.append(t)
                    vis.append((uq(t.split(".")[-1]) if not t.endswith('"') else t, t))
        if k == 1:
            return items[0], vis
        if r.random() < 0.5:
            return ", ".join(items), vis
        sql = items[0]
        for i in range(1, k):
            jt = r.choice(["JOIN", "LEFT JOIN", "INNER JOIN"])
            sql += " %s %s ON %s" % (jt, items[i], self.cond(vis[:i + 1], allow_param=r.random() < 0.3))
        return sql, vis

    def colref(self, vis):
        r = self.rng
        name, t = r.choice(vis)
        cols = self.s.tables.get(t, ["id", "name"]) if t else ["id", "name", "n"]
        c = r.choice(cols)
        if self.corrupt and r.random() < self.corrupt:
            if r.random() < 0.25:
                return "zq.%s" % c          # a qualifier no relation in scope answers to
            c = r.choice(["nosuch", "idd", "bogus"])
        form = r.random()
        if form < 0.5:
            return c
        if form < 0.97:
            return "%s.%s" % (name, c)
        return "public.%s.%s" % (name, c)

    def cond(self, vis, allow_param=True, depth=0):
        r = self.rng
        k = r.random()
        if k < 0.45:
            op = r.choice(["=", "=", "<", ">", "<>", ">=", "LIKE", "||"])
            rhs = self.ph() if allow_param and r.random() < 0.7 else r.choice(["1", "'x'", self.colref(vis)])
            if r.random() < 0.1 and allow_param:
                return "%s %s %s" % (rhs, op, self.colref(vis))
            return "%s %s %s" % (self.colref(vis), op, rhs)
        if k < 0.55:
            return "%s IN (%s)" % (self.colref(vis), ", ".join(self.ph() if allow_param else "1" for _ in range(r.randint(1, 3))))
        if k < 0.62:
            if allow_param and r.random() < 0.4:
                return "%s = %s(%s)" % (self.colref(vis), r.choice(["ANY", "ANY", "ALL"]), self.ph())      # the array operand as a bare placeholder
            return "%s = ANY(%s::int[])" % (self.colref(vis), self.ph() if allow_param else "'{}'")
        if k < 0.70:
            f = r.choice(["lower", "upper", "length", "abs", "unknownfn", "md5"])
            inner = self.ph() if allow_param and r.random() < 0.6 else self.colref(vis)
            if r.random() < 0.3 and allow_param:
                inner = "coalesce(%s, 'x')" % inner
            return "%s = %s(%s)" % (self.colref(vis), f, inner)
        if k < 0.73 and allow_param:
            f = r.choice(["concat", "substring", "unknownfn", "nullif", "round"])
            args = [r.choice([self.ph(), self.ph(), self.ph() + "::text", self.colref(vis), "'x'"]) for _ in range(r.randint(2, 3))]
            return "%s = %s(%s)" % (self.colref(vis), f, ", ".join(args))
        if k < 0.76:
            return "%s IS %sNULL" % (self.colref(vis), r.choice(["", "NOT "]))
        if k < 0.82 and depth < 2:
            sub, _ = self.select(depth + 1, simple=True, one_col=True)
            return r.choice(["%s IN (%s)" % (self.colref(vis), sub), "EXISTS (%s)" % sub])
        if k < 0.86 and allow_param:
            return "%s BETWEEN %s AND %s" % (self.colref(vis), self.ph(), self.ph())
        if k < 0.90 and allow_param:
            return "%s = %s::%s" % (self.colref(vis), self.ph(), r.choice(["int", "text", "bigint", "text[]", "status", "int[3]", "text[2][2]", "int ARRAY[4]", "bigint[]"]))
        if depth < 2:
            return "(%s) %s (%s)" % (self.cond(vis, allow_param, depth + 1), r.choice(["AND", "OR"]), self.cond(vis, allow_param, depth + 1))
        return "%s = 1" % self.colref(vis)

    def target(self, vis, depth=0):
        r = self.rng
        k = r.random()
        al = r.choice(["", "", "", " AS x", " AS total", ' AS "order"', " AS id"])
        if k < 0.16:
            return "*"
        if k < 0.26:
            return "%s.*" % r.choice(vis)[0]
        if k < 0.56:
            return self.colref(vis) + al
        if k < 0.64:
            return r.choice(["count(*)", "count(%s)" % self.colref(vis), "max(%s)" % self.colref(vis), "lower(%s)" % self.colref(vis),
                             "now()", "unknownfn(%s)" % self.colref(vis), "coalesce(%s, 'x')" % self.colref(vis),
                             "COALESCE(%s, %s)" % (self.colref(vis), self.colref(vis))]) + al
        if k < 0.70:
            return "%s::%s%s" % (self.colref(vis), r.choice(["text", "int", "bigint[]"]), al)
        if k < 0.75:
            return r.choice(["1", "'lit'", "NULL", "true"]) + al
        if k < 0.80:
            return "%s %s %s%s" % (self.colref(vis), r.choice(["+", "=", "||", ">", "*"]), r.choice(["1", self.colref(vis)]), al)
        if k < 0.85:
            return "CASE WHEN %s THEN %s ELSE %s END%s" % (self.cond(vis, False, 2), self.colref(vis), r.choice(["NULL", "'x'::text", "0"]), al)
        if k < 0.89 and depth < 2:
            sub, _ = self.select(depth + 1, simple=True, one_col=True)
            return "(%s)%s" % (sub, al)
        if k < 0.92 and depth < 2:
            sub, _ = self.select(depth + 1, simple=True, one_col=True)
            return "EXISTS (%s)%s" % (sub, al)
        if k < 0.94 and self.style != "none":
            f = r.choice(["concat", "plus", "unknownfn", "nullif"])
            return "%s(%s, %s)%s" % (f, self.ph(), r.choice([self.ph(), self.ph() + "::int", self.colref(vis)]), al)
        if k < 0.97 and self.style != "none":
            return self.ph() + r.choice(["", "::int", "::text"]) + al
        return self.colref(vis) + al

    def select(self, depth=0, simple=False, one_col=False):
        r = self.rng
        frm, vis = self.from_list(depth)
        nt = 1 if one_col else r.choice([1, 1, 2, 2, 3, 4])
        if one_col:
            tg = [self.colref(vis)]
        else:
            tg = [self.target(vis, depth) for _ in range(nt)]
        sql = "SELECT %s%s FROM %s" % ("DISTINCT " if r.random() < 0.05 else "", ", ".join(tg), frm)
        if r.random() < 0.7:
            sql += " WHERE " + self.cond(vis, allow_param=True, depth=depth)
        if not simple:
            if r.random() < 0.1:
                sql += " GROUP BY %s" % self.colref(vis)
            if r.random() < 0.2:
                sql += " ORDER BY %s%s" % (self.colref(vis), r.choice(["", " DESC"]))
            lim = r.random()
            if lim < 0.2:
                sql += " LIMIT %s" % self.ph()
            elif lim < 0.3:
                sql += " LIMIT %s OFFSET %s" % (self.ph(), self.ph())
            elif lim < 0.35:
                sql += " OFFSET %s" % self.ph()
        return sql, vis

    def statement(self):
        """one full statement (no trailing semicolon) and its kind"""
        r = self.rng
        k = r.random()
        tabs = list(self.s.tables)
        if self.style == "pos" and r.random() < 0.03:
            # a wide statement: 10-14 distinct placeholders ($10 sorts before $2 as text), numbered out of order
            t = r.choice(tabs)
            cols = self.s.tables[t]
            n = r.randint(10, 14)
            nums = list(range(1, n + 1))
            r.shuffle(nums)
            self.nparam = n
            conds = ["%s %s $%d" % (r.choice(cols), r.choice(["=", "<>", ">", "<"]), i) for i in nums]
            return "SELECT %s FROM %s WHERE %s" % (cols[0], t, (" %s " % r.choice(["AND", "OR"])).join(conds)), "select"
        if k < 0.10:
            t = r.choice(tabs)
            cols = self.s.tables[t]
            al = r.choice(["", "", " x"])
            how = r.random()
            if how < 0.35:
                tg = "*"
            elif how < 0.7:
                tg = ", ".join(cols)
            else:
                tg = ", ".join(cols[:r.randint(1, len(cols))])
            sql = "SELECT %s FROM %s%s" % (tg, t, al)
            if r.random() < 0.5:
                nm = al.strip() or (uq(t.split(".")[-1]) if not t.endswith('"') else t)
                sql += " WHERE %s = %s" % (r.choice(cols), self.ph())
            return sql, "select"
        if k < 0.55:
            sql, _ = self.select()
            if r.random() < 0.08:
                sql2, _ = self.select(1, simple=True)
                sql = "%s %s %s%s" % (sql.split(" ORDER BY")[0].split(" LIMIT")[0].split(" OFFSET")[0], r.choice(["UNION", "UNION", "INTERSECT", "EXCEPT"]), r.choice(["", "ALL "]), sql2)
                if self.style != "none" and r.random() < 0.5 and " LIMIT" not in sql2 and " ORDER BY" not in sql2:
                    # ORDER BY / LIMIT / OFFSET of the combined result, with placeholders
                    sql += " ORDER BY 1 LIMIT %s%s" % (self.ph(), (" OFFSET %s" % self.ph()) if r.random() < 0.5 else "")
            return sql, "select"
        if k < 0.66:
            nm = r.choice(["cte", "recent", "authors", "x"])
            if r.random() < 0.6:
                bt = r.choice(tabs)
                bcols = r.sample(self.s.tables[bt], r.randint(1, len(self.s.tables[bt])))
                cte = "SELECT %s FROM %s" % (r.choice(["*", ", ".join(bcols)]), bt)
                if r.random() < 0.4:
                    cte += " WHERE %s = %s" % (r.choice(self.s.tables[bt]), self.ph())
                ccols = list(self.s.tables[bt]) if "*" in cte.split(" FROM ")[0] else bcols
            else:
                cte, _ = self.select(1, simple=True)
                ccols = ["id", "name"]
            if r.random() < 0.35 and nm not in ("authors",):
                # data-modifying main statement under a WITH clause: the target of SET / the deleted relation is the
                # statement's own table, whatever the CTE reads (preferably another table with a column of the same name)
                cte_tabs = [x for x in tabs if (" FROM %s" % x) in cte]
                others = [x for x in tabs if x not in cte_tabs] or tabs
                t = r.choice(others)
                cols = self.s.tables[t]
                shared = [c_ for c_ in cols if any(c_ in self.s.tables[x] for x in cte_tabs if x != t)]
                if r.random() < 0.6:
                    setc = r.choice(shared) if shared and r.random() < 0.7 else r.choice(cols)
                    main = "UPDATE %s SET %s = %s WHERE %s IN (SELECT %s FROM %s)" % (t, setc, self.ph(), r.choice(cols), r.choice(ccols), nm)
                else:
                    main = "DELETE FROM %s WHERE %s IN (SELECT %s FROM %s)" % (t, r.choice(cols), r.choice(ccols), nm)
                return "WITH %s AS (%s) %s" % (nm, cte, main), "update" if main.startswith("UPDATE") else "delete"
            saved = self.s.tables
            self.s.tables = dict(saved)
            self.s.tables[nm] = ccols
            main, _ = self.select(1)
            self.s.tables = saved
            return "WITH %s AS (%s) %s" % (nm, cte, main), "cte"
        t = r.choice(tabs)
        cols = self.s.tables[t]
        if self.corrupt and r.random() < self.corrupt:
            t = r.choice(["missing", "authorz", "s1.nosuch"])
        ret = ""
        rr = r.random()
        vis = [(uq(t.split(".")[-1]) if not t.endswith('"') else t, t)]
        if rr < 0.3:
            ret = " RETURNING *"
        elif rr < 0.5:
            ret = " RETURNING " + ", ".join(self.colref(vis) for _ in range(r.randint(1, 2)))
        if k < 0.78:
            n = r.randint(1, min(3, len(cols)))
            cs = r.sample(cols, n)
            rows = []
            for _ in range(r.choice([1, 1, 1, 2])):
                vals = [self.ph() if r.random() < 0.75 else r.choice(["1", "'x'", "DEFAULT", "now()", "lower(%s)" % self.ph()]) for _ in cs]
                if r.random() < 0.04:
                    vals.append(self.ph())
                rows.append("(%s)" % ", ".join(vals))
            if r.random() < 0.1:
                sel, _ = self.select(1, simple=True)
                return "INSERT INTO %s (%s) %s%s" % (t, ", ".join(cs), sel, ret), "insert"
            oc = ""
            roc = r.random()
            if roc < 0.05:
                oc = " ON CONFLICT DO NOTHING"
            elif roc < 0.14:
                # the SET target of the conflict action is a column of the INSERT's target, whatever other relation was
                # mentioned before it in the statement
                pre = ""
                if len(tabs) > 1 and r.random() < 0.5:
                    t2 = r.choice([x for x in tabs if x != t])
                    pre = "%s = (SELECT max(%s) FROM %s), " % (r.choice(cols), r.choice(self.s.tables[t2]), t2)
                where = ""
                if r.random() < 0.4:
                    where = " WHERE %s > %s" % (r.choice(cols), self.ph())      # the predicate of a partial unique index
                oc = " ON CONFLICT (%s)%s DO UPDATE SET %s%s = %s" % (cs[0], where, pre, r.choice(cols), self.ph())
            return "INSERT INTO %s (%s) VALUES %s%s%s" % (t, ", ".join(cs), ", ".join(rows), oc, ret), "insert"
        if k < 0.92:
            n = r.randint(1, min(2, len(cols)))
            sets = ", ".join("%s = %s" % (c, self.ph() if r.random() < 0.8 else "1") for c in r.sample(cols, n))
            if len(cols) > 1 and r.random() < 0.12:
                # multi-column assignment: the i-th value belongs to the i-th column, placeholders and other values mixed
                mc = r.sample(cols, r.randint(2, min(3, len(cols))))
                sets = "(%s) = (%s)" % (", ".join(mc), ", ".join(r.choice([self.ph(), self.ph(), "'fixed'", "NULL", "DEFAULT", "1", self.ph() + "::text"]) for _ in mc))
            if len(tabs) > 1 and r.random() < 0.12:
                t2 = r.choice([x for x in tabs if x != t])
                sets = "%s = (SELECT max(%s) FROM %s), %s" % (r.choice(cols), r.choice(self.s.tables[t2]), t2, sets)
            frm = ""
            if r.random() < 0.15 and len(tabs) > 1:
                t2 = r.choice([x for x in tabs if x != t])
                frm = " FROM %s" % t2
                vis = vis + [(uq(t2.split(".")[-1]) if not t2.endswith('"') else t2, t2)]
            al = r.choice(["", "", " AS z"])
            if al:
                vis = [("z", t)] + vis[1:]
            sql = "UPDATE %s%s SET %s%s" % (t, al, sets, frm)
            if r.random() < 0.8:
                sql += " WHERE " + self.cond(vis)
            return sql + ret, "update"
        sql = "DELETE FROM %s" % t
        if r.random() < 0.8:
            sql += " WHERE " + self.cond(vis)
        return sql + ret, "delete"


def gen_case(rng, corrupt=0.0):
    sch = Schema(rng)
    g = QGen(rng, sch, corrupt=corrupt)
    sql, kind = g.statement()
    cmd = rng.choice([":one", ":many", ":many", ":exec", ":execrows", ":execresult"])
    if kind == "select" or kind == "cte":
        cmd = rng.choice([":one", ":many", ":many", ":many", ":exec"])
    name = rng.choice(["GetThing", "ListThings", "DoIt", "Q1"])
    src = "-- name: %s %s\n%s;\n" % (name, cmd, sql)
    return {"schema": sch.sql, "queries": src, "kind": kind, "style": g.style}


def compile_jobs(cases, engine="postgresql", positional=False):
    return [{"op": "compile", "engine": engine, "schema": c["schema"], "queries": c["queries"], "want_ast": True,
             "want_catalog": True, "want_sql_ast": True, "funcs": FUNCS, "positional": positional} for c in cases]


def env_coq(r, engine="postgresql"):
    e = "EPostgres" if engine == "postgresql" else "EMySQL"
    return "(mk_env %s %s %s)" % (e, catalog_coq(r["catalog"]), funcs_coq(r.get("funcs", [])))
